//! vx-extract: mechanical extraction of real function bodies from /repo into a
//! single Verus file (or into Kani kernel crates), with contract text spliced
//! at structural positions only.  See DESIGN.md §2.1 / §2.3.
//!
//! Exit codes: 0 ok, 2 lost anchor / unsupported construct / bad contract file.
//! This tool never decides a property; it only assembles text.

use proc_macro2::{LineColumn, Span, TokenStream, TokenTree};
use quote::ToTokens;
use std::collections::{BTreeMap, BTreeSet};
use std::fmt::Write as _;
use syn::spanned::Spanned;
use syn::visit::{self, Visit};

fn die(msg: impl AsRef<str>) -> ! {
    eprintln!("vx-extract: {}", msg.as_ref());
    std::process::exit(2)
}

// ---------------------------------------------------------------- source text
struct Src {
    path: String,
    text: String,
    line_starts: Vec<usize>,
}
impl Src {
    fn load(path: &str) -> Src {
        let text = std::fs::read_to_string(path).unwrap_or_else(|e| die(format!("cannot read {path}: {e}")));
        let mut line_starts = vec![0usize];
        for (i, b) in text.bytes().enumerate() {
            if b == b'\n' {
                line_starts.push(i + 1);
            }
        }
        Src { path: path.to_string(), text, line_starts }
    }
    fn off(&self, lc: LineColumn) -> usize {
        let ls = self.line_starts[lc.line - 1];
        let rest = &self.text[ls..];
        match rest.char_indices().nth(lc.column) {
            Some((i, _)) => ls + i,
            None => self.text.len(),
        }
    }
    fn s(&self, sp: Span) -> usize {
        self.off(sp.start())
    }
    fn e(&self, sp: Span) -> usize {
        self.off(sp.end())
    }
    fn line_of(&self, off: usize) -> usize {
        match self.line_starts.binary_search(&off) {
            Ok(i) => i + 1,
            Err(i) => i,
        }
    }
    fn slice(&self, a: usize, b: usize) -> &str {
        &self.text[a..b]
    }
    fn txt<T: Spanned>(&self, t: &T) -> &str {
        let sp = t.span();
        self.slice(self.s(sp), self.e(sp))
    }
}

// ---------------------------------------------------------------- cfg evaluation
fn eval_cfg_tokens(ts: TokenStream, feats: &BTreeSet<String>) -> Option<bool> {
    // supports: feature = "x", not(..), all(..), any(..), test, kani
    let toks: Vec<TokenTree> = ts.into_iter().collect();
    eval_cfg_list(&toks, feats).and_then(|v| if v.len() == 1 { Some(v[0]) } else { None })
}
fn eval_cfg_list(toks: &[TokenTree], feats: &BTreeSet<String>) -> Option<Vec<bool>> {
    let mut out = vec![];
    let mut i = 0;
    while i < toks.len() {
        match &toks[i] {
            TokenTree::Ident(id) => {
                let name = id.to_string();
                if name == "feature" {
                    // feature = "x"
                    if let (Some(TokenTree::Punct(p)), Some(TokenTree::Literal(l))) = (toks.get(i + 1), toks.get(i + 2)) {
                        if p.as_char() == '=' {
                            let s = l.to_string();
                            let s = s.trim_matches('"').to_string();
                            out.push(feats.contains(&s));
                            i += 3;
                        } else {
                            return None;
                        }
                    } else {
                        return None;
                    }
                } else if name == "test" || name == "kani" {
                    out.push(false);
                    i += 1;
                } else if name == "not" || name == "all" || name == "any" {
                    if let Some(TokenTree::Group(g)) = toks.get(i + 1) {
                        let inner: Vec<TokenTree> = g.stream().into_iter().collect();
                        let vals = eval_cfg_list(&inner, feats)?;
                        out.push(match name.as_str() {
                            "not" => {
                                if vals.len() != 1 {
                                    return None;
                                }
                                !vals[0]
                            }
                            "all" => vals.iter().all(|b| *b),
                            _ => vals.iter().any(|b| *b),
                        });
                        i += 2;
                    } else {
                        return None;
                    }
                } else {
                    return None;
                }
            }
            TokenTree::Punct(p) if p.as_char() == ',' => {
                i += 1;
            }
            _ => return None,
        }
    }
    Some(out)
}
/// None: no cfg attribute. Some(b): all cfg attributes evaluate to b (conjunction).
fn cfg_of(attrs: &[syn::Attribute], feats: &BTreeSet<String>) -> Option<bool> {
    let mut res: Option<bool> = None;
    for a in attrs {
        if a.path().is_ident("cfg") {
            if let syn::Meta::List(l) = &a.meta {
                match eval_cfg_tokens(l.tokens.clone(), feats) {
                    Some(v) => res = Some(res.unwrap_or(true) && v),
                    None => die(format!("unsupported cfg predicate: {}", l.tokens)),
                }
            }
        }
    }
    res
}

// ---------------------------------------------------------------- contract file
#[derive(Default, Debug)]
struct FnSpec {
    returns: Option<String>,
    sig: Option<String>,
    body_start: Option<String>,
    loops: BTreeMap<(usize, String), String>, // (n, header|body-start|body-end|after)
    closures: BTreeMap<(usize, String), String>, // (n, type|returns|ensures)
}
#[derive(Default, Debug)]
struct Unit {
    name: String,
    source: String,
    preludes: Vec<String>,
    skeletons: Vec<(String, String, Vec<String>)>, // (dep crate, relpath, items)
    opaque: Vec<String>,
    items: Vec<String>,
    rewrites: BTreeSet<String>,
    fns: BTreeMap<String, FnSpec>,
    /// R9: zero-argument method calls rewritten to free functions: method name -> function name
    methodfns: BTreeMap<String, String>,
}

fn parse_unit(path: &str) -> Unit {
    let mut u = Unit::default();
    parse_unit_into(path, &mut u);
    u
}
fn parse_unit_into(path: &str, u: &mut Unit) {
    let text = std::fs::read_to_string(path).unwrap_or_else(|e| die(format!("cannot read {path}: {e}")));
    let mut cur_fn: Option<String> = None;
    let mut cur_key: Option<String> = None;
    let mut buf = String::new();
    fn flush(u: &mut Unit, cur_fn: &Option<String>, cur_key: &mut Option<String>, buf: &mut String) {
        if let (Some(f), Some(k)) = (cur_fn, cur_key.as_ref()) {
            let fs = u.fns.get_mut(f).unwrap();
            let text = buf.trim_end().to_string();
            let parts: Vec<&str> = k.split_whitespace().collect();
            match parts.as_slice() {
                ["sig"] => fs.sig = Some(text),
                ["body-start"] => fs.body_start = Some(text),
                ["loop", n, wh] if ["header", "body-start", "body-end", "after"].contains(wh) => {
                    fs.loops.insert((n.parse().unwrap_or_else(|_| die("bad loop index")), wh.to_string()), text);
                }
                ["closure", n, wh] if ["ensures"].contains(wh) => {
                    fs.closures.insert((n.parse().unwrap_or_else(|_| die("bad closure index")), wh.to_string()), text);
                }
                _ => die(format!("unknown directive @{k}")),
            }
        }
        *cur_key = None;
        buf.clear();
    }
    for line in text.lines() {
        let t = line.trim();
        if let Some(rest) = t.strip_prefix('@') {
            flush(u, &cur_fn, &mut cur_key, &mut buf);
            let mut it = rest.splitn(2, char::is_whitespace);
            let key = it.next().unwrap();
            let arg = it.next().unwrap_or("").trim();
            match key {
                "fn" => {
                    cur_fn = Some(arg.to_string());
                    if u.fns.contains_key(arg) {
                        die(format!("duplicate @fn {arg}"));
                    }
                    u.fns.entry(arg.to_string()).or_default();
                }
                "returns" => {
                    let f = cur_fn.as_ref().unwrap_or_else(|| die("@returns outside @fn"));
                    u.fns.get_mut(f).unwrap().returns = Some(arg.to_string());
                }
                "closure" => {
                    let parts: Vec<&str> = arg.splitn(3, char::is_whitespace).collect();
                    if parts.len() >= 2 && (parts[1] == "type" || parts[1] == "returns") {
                        let f = cur_fn.as_ref().unwrap_or_else(|| die("@closure outside @fn"));
                        let n: usize = parts[0].parse().unwrap_or_else(|_| die("bad closure index"));
                        u.fns.get_mut(f).unwrap().closures.insert((n, parts[1].to_string()), parts.get(2).unwrap_or(&"").trim().to_string());
                    } else {
                        if cur_fn.is_none() {
                            die("@closure outside @fn");
                        }
                        cur_key = Some(format!("closure {arg}"));
                    }
                }
                "end" => {
                    cur_fn = None;
                }
                _ => {
                    if cur_fn.is_none() {
                        die(format!("directive @{key} outside @fn"));
                    }
                    cur_key = Some(rest.trim().to_string());
                }
            }
            continue;
        }
        if cur_key.is_some() {
            buf.push_str(line);
            buf.push('\n');
            continue;
        }
        if t.is_empty() || t.starts_with('#') {
            continue;
        }
        let mut it = t.split_whitespace();
        let key = it.next().unwrap();
        let args: Vec<String> = it.map(|s| s.to_string()).collect();
        match key {
            "unit" => u.name = args.join("_"),
            "include" => {
                let dir = std::path::Path::new(path).parent().unwrap().to_string_lossy().to_string();
                parse_unit_into(&format!("{dir}/{}", args[0]), u);
            }
            "source" => u.source = args[0].clone(),
            "prelude" => u.preludes.extend(args),
            "skeleton" => u.skeletons.push((args[0].clone(), args[1].clone(), args[2..].to_vec())),
            "opaque" => u.opaque.extend(args),
            "items" => u.items.extend(args),
            "rewrite" => u.rewrites.extend(args),
            "methodfn" => {
                u.methodfns.insert(args[0].clone(), args[1].clone());
            }
            _ => die(format!("unknown key `{key}` in {path}")),
        }
    }
    flush(u, &cur_fn, &mut cur_key, &mut buf);
}

// ---------------------------------------------------------------- edits
#[derive(Clone, Debug)]
struct Edit {
    start: usize,
    end: usize,
    seq: usize,
    text: String,
    label: String,
}

struct Rw<'a> {
    src: &'a Src,
    methodfns: &'a BTreeMap<String, String>,
    fname: String,
    spec: Option<&'a FnSpec>,
    rewrites: &'a BTreeSet<String>,
    feats: &'a BTreeSet<String>,
    falsify: bool,
    edits: Vec<Edit>,
    seq: usize,
    loops: usize,
    closures: usize,
    hits: BTreeMap<String, usize>,
    used: BTreeSet<String>,
    falsify_labels: Vec<String>,
}

impl<'a> Rw<'a> {
    fn ins(&mut self, at: usize, text: String, label: String) {
        self.rep(at, at, text, label)
    }
    fn rep(&mut self, start: usize, end: usize, text: String, label: String) {
        self.seq += 1;
        self.edits.push(Edit { start, end, seq: self.seq, text, label });
    }
    fn hit(&mut self, r: &str) {
        *self.hits.entry(r.to_string()).or_insert(0) += 1;
    }
    fn on(&self, r: &str) -> bool {
        self.rewrites.contains(r)
    }
    fn loop_text(&mut self, n: usize, wh: &str) -> Option<String> {
        let k = (n, wh.to_string());
        let t = self.spec.and_then(|s| s.loops.get(&k)).cloned();
        if t.is_some() {
            self.used.insert(format!("loop {n} {wh}"));
        }
        t
    }
    /// splice the four loop positions. `open_s`: byte offset of `{`, `open_e`: just after it,
    /// `close_s`: offset of `}`, `close_e`: just after it.
    fn splice_loop(&mut self, n: usize, open_s: usize, open_e: usize, close_s: usize, close_e: usize) {
        let f = self.fname.clone();
        if let Some(t) = self.loop_text(n, "header") {
            self.ins(open_s, format!("\n{t}\n"), format!("{f}.loop{n}.header"));
        }
        if self.falsify {
            let l = format!("falsify:{f}.loop{n}");
            self.falsify_labels.push(l.clone());
            self.ins(open_e, "\nassert(false);\n".into(), l);
        }
        if let Some(t) = self.loop_text(n, "body-start") {
            self.ins(open_e, format!("\n{t}\n"), format!("{f}.loop{n}.body-start"));
        }
        if let Some(t) = self.loop_text(n, "body-end") {
            self.ins(close_s, format!("\n{t}\n"), format!("{f}.loop{n}.body-end"));
        }
        if let Some(t) = self.loop_text(n, "after") {
            self.ins(close_e, format!("\n{t}\n"), format!("{f}.loop{n}.after"));
        }
    }
    fn block_loop(&mut self, body: &syn::Block) {
        self.loops += 1;
        let n = self.loops;
        let open = body.brace_token.span.open();
        let close = body.brace_token.span.close();
        let (os, oe, cs, ce) = (self.src.s(open), self.src.e(open), self.src.s(close), self.src.e(close));
        self.splice_loop(n, os, oe, cs, ce);
    }
    fn r1(&mut self, m: &syn::Macro) {
        self.hit("R1");
        self.loops += 1;
        let n = self.loops;
        let toks: Vec<TokenTree> = m.tokens.clone().into_iter().collect();
        // split at `=>`
        let mut split = None;
        for i in 0..toks.len().saturating_sub(1) {
            if let (TokenTree::Punct(a), TokenTree::Punct(b)) = (&toks[i], &toks[i + 1]) {
                if a.as_char() == '=' && b.as_char() == '>' {
                    split = Some(i);
                    break;
                }
            }
        }
        let split = split.unwrap_or_else(|| die("R1: no `=>` in konst::for_range!"));
        let head: TokenStream = toks[..split].iter().cloned().collect();
        let body_toks = &toks[split + 2..];
        if body_toks.is_empty() {
            die("R1: empty for_range body");
        }
        fn has_ctl(ts: TokenStream) -> bool {
            ts.into_iter().any(|t| match t {
                TokenTree::Ident(i) => i == "continue" || i == "break",
                TokenTree::Group(g) => has_ctl(g.stream()),
                _ => false,
            })
        }
        if has_ctl(body_toks.iter().cloned().collect()) {
            die("R1: continue/break inside konst::for_range! body is not supported by the unrolling");
        }
        struct Head {
            var: syn::Ident,
            range: syn::ExprRange,
        }
        impl syn::parse::Parse for Head {
            fn parse(input: syn::parse::ParseStream) -> syn::Result<Self> {
                let var: syn::Ident = input.parse()?;
                let _: syn::Token![in] = input.parse()?;
                let range: syn::ExprRange = input.parse()?;
                Ok(Head { var, range })
            }
        }
        let h: Head = syn::parse2(head).unwrap_or_else(|e| die(format!("R1: cannot parse for_range head: {e}")));
        let (a, b) = match (&h.range.start, &h.range.end, &h.range.limits) {
            (Some(a), Some(b), syn::RangeLimits::HalfOpen(_)) => (self.src.txt(&**a).to_string(), self.src.txt(&**b).to_string()),
            _ => die("R1: only `a..b` ranges supported"),
        };
        let i = h.var.to_string();
        let mac_s = self.src.s(m.path.span());
        let mac_e = self.src.e(m.delimiter.span().close());
        let bs = self.src.s(body_toks[0].span());
        let be = self.src.e(body_toks[body_toks.len() - 1].span());
        let f = self.fname.clone();
        self.rep(mac_s, bs, format!("let mut {i} = {a}; while {i} < {b} "), "R1".into());
        if let Some(t) = self.loop_text(n, "header") {
            self.ins(bs, format!("\n{t}\n"), format!("{f}.loop{n}.header"));
        }
        self.ins(bs, "{ ".into(), "R1".into());
        if self.falsify {
            let l = format!("falsify:{f}.loop{n}");
            self.falsify_labels.push(l.clone());
            self.ins(bs, "\nassert(false);\n".into(), l);
        }
        if let Some(t) = self.loop_text(n, "body-start") {
            self.ins(bs, format!("\n{t}\n"), format!("{f}.loop{n}.body-start"));
        }
        self.ins(be, " ; ".into(), "R1".into());
        if let Some(t) = self.loop_text(n, "body-end") {
            self.ins(be, format!("\n{t}\n"), format!("{f}.loop{n}.body-end"));
        }
        self.rep(be, mac_e, format!(" {i} += 1; }}"), "R1".into());
        if let Some(t) = self.loop_text(n, "after") {
            self.ins(mac_e, format!("\n{t}\n"), format!("{f}.loop{n}.after"));
        }
        // visit the body statements (token spans are preserved by syn)
        let body_ts: TokenStream = body_toks.iter().cloned().collect();
        let stmts = syn::parse::Parser::parse2(syn::Block::parse_within, body_ts)
            .unwrap_or_else(|e| die(format!("R1: cannot parse for_range body: {e}")));
        for s in &stmts {
            self.visit_stmt(s);
        }
    }
}

fn path_str(p: &syn::Path) -> String {
    p.segments.iter().map(|s| s.ident.to_string()).collect::<Vec<_>>().join("::")
}

impl<'a, 'ast> Visit<'ast> for Rw<'a> {
    fn visit_expr_while(&mut self, w: &'ast syn::ExprWhile) {
        self.block_loop(&w.body);
        visit::visit_expr_while(self, w);
    }
    fn visit_expr_loop(&mut self, w: &'ast syn::ExprLoop) {
        self.block_loop(&w.body);
        visit::visit_expr_loop(self, w);
    }
    fn visit_expr_for_loop(&mut self, w: &'ast syn::ExprForLoop) {
        self.block_loop(&w.body);
        visit::visit_expr_for_loop(self, w);
    }
    fn visit_macro(&mut self, m: &'ast syn::Macro) {
        let p = path_str(&m.path);
        if p == "konst::for_range" && self.on("R1") {
            self.r1(m);
        } else if p == "panic" && self.on("R3") {
            self.hit("R3");
            let (s, e) = (self.src.s(m.path.span()), self.src.e(m.delimiter.span().close()));
            self.rep(s, e, "verif_diverge()".into(), "R3".into());
        } else if p == "format" && self.on("R6") {
            self.hit("R6");
            let (s, e) = (self.src.s(m.path.span()), self.src.e(m.delimiter.span().close()));
            self.rep(s, e, "verif_opaque_string()".into(), "R6".into());
        } else if p == "konst::for_range" {
            die("konst::for_range! present but R1 not enabled");
        }
    }
    fn visit_expr_path(&mut self, p: &'ast syn::ExprPath) {
        if self.on("R2") {
            let s = path_str(&p.path);
            let rep = match s.as_str() {
                "konst::cmp_str" => Some("konst_cmp_str"),
                "konst::eq_str" => Some("konst_eq_str"),
                _ => None,
            };
            if let Some(r) = rep {
                self.hit("R2");
                let (a, b) = (self.src.s(p.span()), self.src.e(p.span()));
                self.rep(a, b, r.into(), "R2".into());
            }
        }
        visit::visit_expr_path(self, p);
    }
    fn visit_arm(&mut self, arm: &'ast syn::Arm) {
        match cfg_of(&arm.attrs, self.feats) {
            Some(false) => {
                self.hit("cfg-arm-dropped");
                let sp = arm.span();
                let (a, b) = (self.src.s(sp), self.src.e(sp));
                self.rep(a, b, String::new(), "cfg".into());
            }
            Some(true) => {
                self.hit("cfg-arm-kept");
                for at in &arm.attrs {
                    if at.path().is_ident("cfg") {
                        let (a, b) = (self.src.s(at.span()), self.src.e(at.span()));
                        self.rep(a, b, String::new(), "cfg".into());
                    }
                }
                visit::visit_arm(self, arm);
            }
            None => visit::visit_arm(self, arm),
        }
    }
    fn visit_expr_method_call(&mut self, mc: &'ast syn::ExprMethodCall) {
        if self.on("R5") && mc.method == "collect" {
            if let syn::Expr::MethodCall(map) = &*mc.receiver {
                if map.method == "map" && map.args.len() == 1 {
                    if let (syn::Expr::Closure(cl), syn::Expr::MethodCall(ii)) = (&map.args[0], &*map.receiver) {
                        if ii.method == "into_iter" && ii.args.is_empty() {
                            self.hit("R5");
                            self.closures += 1;
                            let n = self.closures;
                            let f = self.fname.clone();
                            let e0 = &*ii.receiver;
                            let (e_s, e_e) = (self.src.s(e0.span()), self.src.e(e0.span()));
                            let (c_s, c_e) = (self.src.s(cl.span()), self.src.e(cl.span()));
                            let (b_s, b_e) = (self.src.s(cl.body.span()), self.src.e(cl.body.span()));
                            let mc_e = self.src.e(mc.span());
                            if cl.inputs.len() != 1 {
                                die("R5: closure must have one parameter");
                            }
                            let pname = match &cl.inputs[0] {
                                syn::Pat::Ident(pi) => pi.ident.to_string(),
                                _ => die("R5: closure parameter must be a plain identifier"),
                            };
                            let get = |s: &mut Self, k: &str| -> String {
                                let key = (n, k.to_string());
                                let v = s.spec.and_then(|sp| sp.closures.get(&key)).cloned().unwrap_or_else(|| die(format!("R5: contract for {f} lacks `@closure {n} {k}`")));
                                s.used.insert(format!("closure {n} {k}"));
                                v
                            };
                            let ty = get(self, "type");
                            let ret = get(self, "returns");
                            let ens = get(self, "ensures").replace("$1", &pname);
                            self.ins(e_s, "verif_try_map_collect(".into(), "R5".into());
                            self.rep(e_e, c_s, ", ".into(), "R5".into());
                            self.rep(c_s, b_s, format!("|{pname}: {ty}| -> ({ret})\n"), "R5".into());
                            self.ins(b_s, format!("{ens}\n"), format!("{f}.closure{n}.ensures"));
                            self.ins(b_s, "{ ".into(), "R5".into());
                            self.ins(b_e, " }".into(), "R5".into());
                            self.rep(c_e, mc_e, ")".into(), "R5".into());
                            // descend into E and the closure body only
                            self.visit_expr(e0);
                            self.visit_expr(&cl.body);
                            return;
                        }
                    }
                }
            }
        }
        if self.on("R9") && mc.args.is_empty() && mc.turbofish.is_none() {
            if let Some(f) = self.methodfns.get(&mc.method.to_string()) {
                self.hit("R9");
                let (r_s, r_e) = (self.src.s(mc.receiver.span()), self.src.e(mc.receiver.span()));
                let mc_e = self.src.e(mc.span());
                self.ins(r_s, format!("{f}("), "R9".into());
                self.rep(r_e, mc_e, ")".into(), "R9".into());
                self.visit_expr(&mc.receiver);
                return;
            }
        }
        visit::visit_expr_method_call(self, mc);
    }
}

// ---------------------------------------------------------------- output assembly
#[derive(Default)]
struct Out {
    text: String,
    segs: Vec<String>, // json objects
}
fn jstr(s: &str) -> String {
    let mut o = String::from("\"");
    for c in s.chars() {
        match c {
            '"' => o.push_str("\\\""),
            '\\' => o.push_str("\\\\"),
            '\n' => o.push_str("\\n"),
            '\t' => o.push_str("\\t"),
            '\r' => o.push_str("\\r"),
            c if (c as u32) < 0x20 => {
                let _ = write!(o, "\\u{:04x}", c as u32);
            }
            c => o.push(c),
        }
    }
    o.push('"');
    o
}
impl Out {
    fn verbatim(&mut self, src: &Src, a: usize, b: usize) {
        if a >= b {
            return;
        }
        let o0 = self.text.len();
        self.text.push_str(src.slice(a, b));
        let o1 = self.text.len();
        self.segs.push(format!(
            "{{\"o0\":{o0},\"o1\":{o1},\"kind\":\"src\",\"file\":{},\"line0\":{},\"s0\":{a}}}",
            jstr(&src.path),
            src.line_of(a)
        ));
    }
    fn labelled(&mut self, text: &str, label: &str) {
        if text.is_empty() {
            return;
        }
        let o0 = self.text.len();
        self.text.push_str(text);
        let o1 = self.text.len();
        self.segs.push(format!("{{\"o0\":{o0},\"o1\":{o1},\"kind\":\"splice\",\"label\":{}}}", jstr(label)));
    }
    fn apply(&mut self, src: &Src, s: usize, e: usize, mut edits: Vec<Edit>) {
        edits.sort_by_key(|x| (x.start, x.seq));
        let mut pos = s;
        for ed in edits {
            if ed.start < pos {
                die(format!("overlapping edits at byte {} of {} (label {})", ed.start, src.path, ed.label));
            }
            self.verbatim(src, pos, ed.start);
            self.labelled(&ed.text, &ed.label);
            pos = ed.end;
        }
        self.verbatim(src, pos, e);
        self.text.push_str("\n\n");
    }
}

// ---------------------------------------------------------------- skeletons (R7)
fn strip_attrs_keep_cfg(attrs: &mut Vec<syn::Attribute>, feats: &BTreeSet<String>) -> bool {
    let keep = cfg_of(attrs, feats).unwrap_or(true);
    attrs.clear();
    keep
}
fn collect_type_idents(ty: &syn::Type, out: &mut BTreeSet<String>) {
    struct V<'a>(&'a mut BTreeSet<String>);
    impl<'a, 'ast> Visit<'ast> for V<'a> {
        fn visit_path_segment(&mut self, s: &'ast syn::PathSegment) {
            self.0.insert(s.ident.to_string());
            visit::visit_path_segment(self, s);
        }
    }
    V(out).visit_type(ty);
}
fn skeleton(file: &str, items: &[String], feats: &BTreeSet<String>, used_types: &mut BTreeSet<String>, defined: &mut BTreeSet<String>) -> String {
    let src = Src::load(file);
    let ast = syn::parse_file(&src.text).unwrap_or_else(|e| die(format!("cannot parse {file}: {e}")));
    let mut out = String::new();
    for name in items {
        let mut found = false;
        for it in &ast.items {
            match it {
                syn::Item::Enum(e) if e.ident == name => {
                    found = true;
                    let mut e = e.clone();
                    strip_attrs_keep_cfg(&mut e.attrs, feats);
                    let mut vs = syn::punctuated::Punctuated::new();
                    for v in e.variants.iter() {
                        let mut v = v.clone();
                        if !strip_attrs_keep_cfg(&mut v.attrs, feats) {
                            continue;
                        }
                        for f in v.fields.iter_mut() {
                            f.attrs.clear();
                            collect_type_idents(&f.ty, used_types);
                        }
                        vs.push(v);
                    }
                    e.variants = vs;
                    for p in e.generics.params.iter_mut() {
                        if let syn::GenericParam::Type(tp) = p {
                            tp.default = None;
                            tp.eq_token = None;
                            used_types.remove(&tp.ident.to_string());
                            defined.insert(format!("{}::{}", name, tp.ident));
                        }
                    }
                    e.vis = syn::parse_quote!(pub);
                    defined.insert(name.clone());
                    let _ = writeln!(out, "// R7: skeleton of `{name}` from {file}:{} (attributes stripped, cfg resolved)", src.line_of(src.s(it.span())));
                    let _ = writeln!(out, "{}\n", e.to_token_stream());
                }
                syn::Item::Struct(s) if s.ident == name => {
                    found = true;
                    let mut s = s.clone();
                    strip_attrs_keep_cfg(&mut s.attrs, feats);
                    match &mut s.fields {
                        syn::Fields::Named(n) => {
                            let mut fs = syn::punctuated::Punctuated::new();
                            for f in n.named.iter() {
                                let mut f = f.clone();
                                if !strip_attrs_keep_cfg(&mut f.attrs, feats) {
                                    continue;
                                }
                                collect_type_idents(&f.ty, used_types);
                                fs.push(f);
                            }
                            n.named = fs;
                        }
                        _ => die(format!("skeleton: struct {name} must have named fields")),
                    }
                    for p in s.generics.params.iter_mut() {
                        if let syn::GenericParam::Type(tp) = p {
                            tp.default = None;
                            tp.eq_token = None;
                            defined.insert(format!("{}::{}", name, tp.ident));
                        }
                    }
                    s.vis = syn::parse_quote!(pub);
                    defined.insert(name.clone());
                    let _ = writeln!(out, "// R7: skeleton of `{name}` from {file}:{} (attributes stripped, cfg resolved)", src.line_of(src.s(it.span())));
                    let _ = writeln!(out, "{}\n", s.to_token_stream());
                }
                _ => {}
            }
        }
        if !found {
            die(format!("skeleton: item `{name}` not found in {file} (lost anchor)"));
        }
    }
    out
}

// ---------------------------------------------------------------- unit mode
fn find_mod_items<'a>(items: &'a [syn::Item]) -> Vec<&'a syn::Item> {
    // top-level items only; `#[cfg(test)] mod tests` and nested modules are not searched
    items.iter().collect()
}

fn cmd_unit(args: &[String]) {
    let mut contracts = None;
    let mut repo = "/repo".to_string();
    let mut feats = BTreeSet::new();
    let mut out_path = None;
    let mut map_path = None;
    let mut deps: BTreeMap<String, String> = BTreeMap::new();
    let mut falsify = false;
    let mut contracts_dir = None;
    let mut i = 0;
    while i < args.len() {
        match args[i].as_str() {
            "--repo" => {
                repo = args[i + 1].clone();
                i += 2
            }
            "--features" => {
                for f in args[i + 1].split(',') {
                    if !f.is_empty() {
                        feats.insert(f.to_string());
                    }
                }
                i += 2
            }
            "--out" => {
                out_path = Some(args[i + 1].clone());
                i += 2
            }
            "--map" => {
                map_path = Some(args[i + 1].clone());
                i += 2
            }
            "--dep" => {
                let (k, v) = args[i + 1].split_once('=').unwrap_or_else(|| die("--dep name=dir"));
                deps.insert(k.to_string(), v.to_string());
                i += 2
            }
            "--contracts-dir" => {
                contracts_dir = Some(args[i + 1].clone());
                i += 2
            }
            "--falsify" => {
                falsify = true;
                i += 1
            }
            s if contracts.is_none() => {
                contracts = Some(s.to_string());
                i += 1
            }
            s => die(format!("unexpected argument {s}")),
        }
    }
    let contracts = contracts.unwrap_or_else(|| die("usage: vx-extract unit <file.contracts> ..."));
    let cdir = contracts_dir.unwrap_or_else(|| std::path::Path::new(&contracts).parent().unwrap().to_string_lossy().to_string());
    let unit = parse_unit(&contracts);
    let src = Src::load(&format!("{repo}/{}", unit.source));
    let ast = syn::parse_file(&src.text).unwrap_or_else(|e| die(format!("cannot parse {}: {e}", src.path)));

    let mut out = Out::default();
    out.labelled("#![allow(unused, deprecated, non_snake_case)]\nuse vstd::prelude::*;\nverus! {\n\n", "frame");
    // R7 skeletons
    let mut used_types = BTreeSet::new();
    let mut defined = BTreeSet::new();
    let mut skel_count = 0usize;
    for (dep, rel, items) in &unit.skeletons {
        let dir = deps.get(dep).unwrap_or_else(|| die(format!("no --dep {dep}=<dir> given")));
        let t = skeleton(&format!("{dir}/{rel}"), items, &feats, &mut used_types, &mut defined);
        skel_count += items.len();
        out.labelled(&t, &format!("R7:{dep}/{rel}"));
    }
    if !unit.skeletons.is_empty() {
        let builtin: BTreeSet<&str> = ["u8", "u16", "u32", "u64", "u128", "usize", "i8", "i16", "i32", "i64", "i128", "isize", "bool", "String", "Vec", "Option", "T", "Box"].into_iter().collect();
        let mut need: Vec<String> = used_types.iter().filter(|t| !builtin.contains(t.as_str()) && !defined.contains(*t)).cloned().collect();
        need.sort();
        let declared: BTreeSet<String> = unit.opaque.iter().cloned().collect();
        for n in &need {
            if !declared.contains(n) {
                die(format!("R7: type `{n}` occurs in a skeleton but is not listed under `opaque` (dependency changed shape?)"));
            }
        }
        let mut t = String::new();
        for n in &unit.opaque {
            let _ = writeln!(t, "#[verifier::external_body] pub struct {n} {{ _o: () }}");
        }
        out.labelled(&t, "R7:opaque");
    }
    // preludes
    for p in &unit.preludes {
        let ps = Src::load(&format!("{cdir}/{p}"));
        out.labelled(&format!("// ---- prelude {p} ----\n"), "frame");
        // line preprocessor: `//@cfg <predicate>` guards the next line
        let mut pos = 0usize;
        let mut drop_next = false;
        for line in ps.text.split_inclusive('\n') {
            let t = line.trim();
            let a = pos;
            pos += line.len();
            if let Some(pred) = t.strip_prefix("//@cfg ") {
                let ts: TokenStream = pred.parse().unwrap_or_else(|_| die("bad //@cfg line"));
                drop_next = !eval_cfg_tokens(ts, &feats).unwrap_or_else(|| die("unsupported //@cfg predicate"));
                continue;
            }
            if drop_next {
                drop_next = false;
                continue;
            }
            out.verbatim(&ps, a, pos);
        }
        out.text.push('\n');
    }

    let mut hits: BTreeMap<String, usize> = BTreeMap::new();
    if skel_count > 0 {
        hits.insert("R7".into(), skel_count);
    }
    let mut functions: Vec<String> = vec![];
    let mut falsify_labels: Vec<String> = vec![];
    let mut seen_fns: BTreeSet<String> = BTreeSet::new();
    let top = find_mod_items(&ast.items);
    for want in &unit.items {
        let mut found = false;
        if let Some(rest) = want.strip_prefix("impl:") {
            // nth inherent impl block of a type, copied whole; contract blocks are keyed `Type:N::method`
            let (ty, n) = rest.split_once(':').unwrap_or_else(|| die("impl item must be `impl:Type:N`"));
            let n: usize = n.parse().unwrap_or_else(|_| die("impl item must be `impl:Type:N`"));
            let mut k = 0;
            for it in &top {
                if let syn::Item::Impl(im) = it {
                    if im.trait_.is_some() {
                        continue;
                    }
                    let name = match &*im.self_ty {
                        syn::Type::Path(p) => p.path.segments.last().map(|s| s.ident.to_string()).unwrap_or_default(),
                        _ => String::new(),
                    };
                    if name != ty {
                        continue;
                    }
                    k += 1;
                    if k != n {
                        continue;
                    }
                    found = true;
                    let (is_, ie) = (src.s(im.span()), src.e(im.span()));
                    let mut all_edits: Vec<Edit> = vec![];
                    let mut seq_base = 0usize;
                    for ii in &im.items {
                        if let syn::ImplItem::Fn(f) = ii {
                            let key = format!("{ty}:{n}::{}", f.sig.ident);
                            match cfg_of(&f.attrs, &feats) {
                                Some(false) => {
                                    let (a, b) = (src.s(ii.span()), src.e(ii.span()));
                                    seq_base += 1;
                                    all_edits.push(Edit { start: a, end: b, seq: seq_base, text: String::new(), label: "cfg".into() });
                                    *hits.entry("cfg-item-dropped".into()).or_insert(0) += 1;
                                    continue;
                                }
                                Some(true) => {
                                    for at in &f.attrs {
                                        if at.path().is_ident("cfg") {
                                            seq_base += 1;
                                            all_edits.push(Edit { start: src.s(at.span()), end: src.e(at.span()), seq: seq_base, text: String::new(), label: "cfg".into() });
                                        }
                                    }
                                    *hits.entry("cfg-item-kept".into()).or_insert(0) += 1;
                                }
                                None => {}
                            }
                            let spec = unit.fns.get(&key);
                            let mut rw = Rw { src: &src, methodfns: &unit.methodfns, fname: key.clone(), spec, rewrites: &unit.rewrites, feats: &feats, falsify, edits: vec![], seq: seq_base, loops: 0, closures: 0, hits: BTreeMap::new(), used: BTreeSet::new(), falsify_labels: vec![] };
                            do_fn(&mut rw, &f.sig, &f.block, &src);
                            seen_fns.insert(key.clone());
                            functions.push(format!("{{\"name\":{},\"file\":{},\"line0\":{},\"line1\":{},\"loops\":{}}}", jstr(&key), jstr(&unit.source), src.line_of(src.s(f.sig.span())), src.line_of(src.e(ii.span())), rw.loops));
                            check_used(&key, spec, &rw.used);
                            for (k2, v) in &rw.hits {
                                *hits.entry(k2.clone()).or_insert(0) += v;
                            }
                            falsify_labels.extend(rw.falsify_labels.clone());
                            seq_base = rw.seq;
                            all_edits.extend(rw.edits);
                        }
                    }
                    out.apply(&src, is_, ie, all_edits);
                }
            }
        } else if let Some((tr, meth)) = want.split_once("::") {
            // R4: method of the (single) impl of trait `tr`
            if !unit.rewrites.contains("R4") {
                die("trait-impl item requested but R4 not enabled");
            }
            for it in &top {
                if let syn::Item::Impl(im) = it {
                    let is = im.trait_.as_ref().map(|(_, p, _)| p.segments.last().unwrap().ident == tr).unwrap_or(false);
                    if !is {
                        continue;
                    }
                    if found {
                        die(format!("R4: more than one impl of {tr}"));
                    }
                    found = true;
                    if im.generics.where_clause.is_some() {
                        die("R4: where clause on impl unsupported");
                    }
                    if im.items.len() != 1 {
                        die("R4: impl must contain exactly one item");
                    }
                    let f = match &im.items[0] {
                        syn::ImplItem::Fn(f) if f.sig.ident == meth => f,
                        _ => die(format!("R4: method {meth} not found in impl of {tr}")),
                    };
                    if !f.sig.generics.params.is_empty() {
                        die("R4: method already generic");
                    }
                    let spec = unit.fns.get(meth);
                    let mut rw = Rw { src: &src, methodfns: &unit.methodfns, fname: meth.to_string(), spec, rewrites: &unit.rewrites, feats: &feats, falsify, edits: vec![], seq: 0, loops: 0, closures: 0, hits: BTreeMap::new(), used: BTreeSet::new(), falsify_labels: vec![] };
                    rw.hit("R4");
                    let (is_, ie) = (src.s(im.span()), src.e(im.span()));
                    let fs = src.s(f.span());
                    let self_ty = src.txt(&*im.self_ty).to_string();
                    rw.rep(is_, fs, format!("impl {self_ty} {{\n    "), "R4".into());
                    let gp = im.generics.params.iter().map(|p| src.txt(p).to_string()).collect::<Vec<_>>().join(", ");
                    if !gp.is_empty() {
                        let ide = src.e(f.sig.ident.span());
                        rw.ins(ide, format!("<{gp}>"), "R4".into());
                    }
                    do_fn(&mut rw, &f.sig, &f.block, &src);
                    seen_fns.insert(meth.to_string());
                    functions.push(format!("{{\"name\":{},\"file\":{},\"line0\":{},\"line1\":{},\"loops\":{}}}", jstr(meth), jstr(&unit.source), src.line_of(fs), src.line_of(src.e(f.span())), rw.loops));
                    check_used(meth, spec, &rw.used);
                    for (k, v) in &rw.hits {
                        *hits.entry(k.clone()).or_insert(0) += v;
                    }
                    falsify_labels.extend(rw.falsify_labels.clone());
                    out.apply(&src, is_, ie, rw.edits);
                }
            }
        } else {
            for it in &top {
                match it {
                    syn::Item::Fn(f) if f.sig.ident == want => {
                        found = true;
                        let spec = unit.fns.get(want);
                        let mut rw = Rw { src: &src, methodfns: &unit.methodfns, fname: want.clone(), spec, rewrites: &unit.rewrites, feats: &feats, falsify, edits: vec![], seq: 0, loops: 0, closures: 0, hits: BTreeMap::new(), used: BTreeSet::new(), falsify_labels: vec![] };
                        let (s, e) = (src.s(it.span()), src.e(it.span()));
                        do_fn(&mut rw, &f.sig, &f.block, &src);
                        seen_fns.insert(want.clone());
                        functions.push(format!("{{\"name\":{},\"file\":{},\"line0\":{},\"line1\":{},\"loops\":{}}}", jstr(want), jstr(&unit.source), src.line_of(src.s(f.sig.span())), src.line_of(e), rw.loops));
                        check_used(want, spec, &rw.used);
                        for (k, v) in &rw.hits {
                            *hits.entry(k.clone()).or_insert(0) += v;
                        }
                        falsify_labels.extend(rw.falsify_labels.clone());
                        out.apply(&src, s, e, rw.edits);
                    }
                    syn::Item::Enum(en) if en.ident == want => {
                        found = true;
                        let (s, e) = (src.s(it.span()), src.e(it.span()));
                        out.apply(&src, s, e, vec![]);
                    }
                    syn::Item::Struct(st) if st.ident == want => {
                        found = true;
                        let (s, e) = (src.s(it.span()), src.e(it.span()));
                        out.apply(&src, s, e, vec![]);
                    }
                    _ => {}
                }
            }
        }
        if !found {
            die(format!("item `{want}` not found in {} (lost anchor)", src.path));
        }
    }
    for f in unit.fns.keys() {
        if !seen_fns.contains(f) {
            die(format!("contract block for `{f}` matches no extracted function (lost anchor)"));
        }
    }
    out.labelled("\n} // verus!\nfn main() {}\n", "frame");

    let out_path = out_path.unwrap_or_else(|| die("--out required"));
    std::fs::write(&out_path, &out.text).unwrap_or_else(|e| die(format!("write {out_path}: {e}")));
    if let Some(mp) = map_path {
        let hits_s = hits.iter().map(|(k, v)| format!("{}:{}", jstr(k), v)).collect::<Vec<_>>().join(",");
        let fl = falsify_labels.iter().map(|l| jstr(l)).collect::<Vec<_>>().join(",");
        let m = format!(
            "{{\"unit\":{},\"source\":{},\"hits\":{{{}}},\"functions\":[{}],\"falsify_labels\":[{}],\"segments\":[\n{}\n]}}\n",
            jstr(&unit.name),
            jstr(&unit.source),
            hits_s,
            functions.join(","),
            fl,
            out.segs.join(",\n")
        );
        std::fs::write(&mp, m).unwrap_or_else(|e| die(format!("write {mp}: {e}")));
    }
}

fn check_used(name: &str, spec: Option<&FnSpec>, used: &BTreeSet<String>) {
    if let Some(s) = spec {
        for (n, wh) in s.loops.keys() {
            if !used.contains(&format!("loop {n} {wh}")) {
                die(format!("contract for `{name}`: `@loop {n} {wh}` matches no loop (lost anchor)"));
            }
        }
        for (n, wh) in s.closures.keys() {
            if !used.contains(&format!("closure {n} {wh}")) {
                die(format!("contract for `{name}`: `@closure {n} {wh}` matches no closure (lost anchor)"));
            }
        }
    }
}

fn do_fn(rw: &mut Rw, sig: &syn::Signature, block: &syn::Block, src: &Src) {
    let f = rw.fname.clone();
    if let Some(spec) = rw.spec {
        if let Some(r) = &spec.returns {
            match &sig.output {
                syn::ReturnType::Type(_, ty) => {
                    let (a, b) = (src.s(ty.span()), src.e(ty.span()));
                    let t = src.slice(a, b).to_string();
                    rw.rep(a, b, format!("({r}: {t})"), format!("{f}.returns"));
                }
                syn::ReturnType::Default => die(format!("`@returns` given for `{f}` which has no return type")),
            }
        }
        if let Some(t) = &spec.sig {
            let at = src.s(block.brace_token.span.open());
            rw.ins(at, format!("\n{t}\n"), format!("{f}.sig"));
        }
    }
    let oe = src.e(block.brace_token.span.open());
    // R10: `fn f(mut self, ..) { body }` -> `fn f(self, ..) { let mut this = self; body[self := this] }`
    if let Some(syn::FnArg::Receiver(rc)) = sig.inputs.first() {
        if rc.reference.is_none() && rc.mutability.is_some() {
            if !rw.on("R10") {
                die("`mut self` receiver present but R10 not enabled");
            }
            rw.hit("R10");
            let m = rc.mutability.unwrap();
            let (a, b) = (src.s(m.span()), src.e(m.span()));
            rw.rep(a, b, String::new(), "R10".into());
            rw.ins(oe, " let mut this = self; ".into(), "R10".into());
            fn walk(ts: TokenStream, src: &Src, out: &mut Vec<(usize, usize)>) {
                for t in ts {
                    match t {
                        TokenTree::Ident(i) if i == "self" => out.push((src.s(i.span()), src.e(i.span()))),
                        TokenTree::Group(g) => walk(g.stream(), src, out),
                        _ => {}
                    }
                }
            }
            let mut v = vec![];
            walk(block.to_token_stream(), src, &mut v);
            for (a, b) in v {
                rw.rep(a, b, "this".into(), "R10".into());
            }
        }
    }
    if rw.falsify {
        let l = format!("falsify:{f}");
        rw.falsify_labels.push(l.clone());
        rw.ins(oe, "\nassert(false);\n".into(), l);
    }
    if let Some(t) = rw.spec.and_then(|s| s.body_start.clone()) {
        rw.ins(oe, format!("\n{t}\n"), format!("{f}.body-start"));
    }
    rw.visit_block(block);
}

// ---------------------------------------------------------------- kernel lifting (KT)
/// lift-match <file> <fn path, e.g. `MsgType::new` or `impl Parse for OverrideEntryPoint::parse`> <nth match in fn> <scrutinee replacement>
/// prints the `match` expression with the scrutinee replaced; arms are source bytes.
fn find_fn<'a>(ast: &'a syn::File, path: &str) -> (&'a syn::Signature, &'a syn::Block) {
    // path forms: `name` | `Type::name` | `Trait for Type::name`
    let (owner, name) = match path.rsplit_once("::") {
        Some((o, n)) => (Some(o.trim()), n.trim()),
        None => (None, path.trim()),
    };
    let mut found = vec![];
    fn walk<'a>(items: &'a [syn::Item], owner: Option<&str>, name: &str, found: &mut Vec<(&'a syn::Signature, &'a syn::Block)>) {
        for it in items {
            match it {
                syn::Item::Fn(f) if owner.is_none() && f.sig.ident == name => found.push((&f.sig, &*f.block)),
                syn::Item::Impl(im) => {
                    if let Some(o) = owner {
                        let ty = im.self_ty.to_token_stream().to_string().replace(' ', "");
                        let tr = im.trait_.as_ref().map(|(_, p, _)| p.segments.last().unwrap().ident.to_string());
                        let desc = match &tr {
                            Some(t) => format!("{t} for {ty}"),
                            None => ty.clone(),
                        };
                        if desc == o {
                            for ii in &im.items {
                                if let syn::ImplItem::Fn(f) = ii {
                                    if f.sig.ident == name {
                                        found.push((&f.sig, &f.block));
                                    }
                                }
                            }
                        }
                    }
                }
                _ => {}
            }
        }
    }
    walk(&ast.items, owner, name, &mut found);
    if found.len() != 1 {
        die(format!("lift: `{path}` found {} times (lost anchor)", found.len()));
    }
    found[0]
}

fn cmd_lift_match(args: &[String]) {
    if args.len() != 4 {
        die("usage: vx-extract lift-match <file> <fn path> <nth> <replacement>");
    }
    let src = Src::load(&args[0]);
    let ast = syn::parse_file(&src.text).unwrap_or_else(|e| die(format!("cannot parse {}: {e}", src.path)));
    let (_sig, block) = find_fn(&ast, &args[1]);
    let nth: usize = args[2].parse().unwrap_or_else(|_| die("bad nth"));
    struct V<'a> {
        n: usize,
        want: usize,
        got: Option<&'a syn::ExprMatch>,
    }
    impl<'a> Visit<'a> for V<'a> {
        fn visit_expr_match(&mut self, m: &'a syn::ExprMatch) {
            self.n += 1;
            if self.n == self.want {
                self.got = Some(m);
            }
            visit::visit_expr_match(self, m);
        }
    }
    let mut v = V { n: 0, want: nth, got: None };
    v.visit_block(block);
    let m = v.got.unwrap_or_else(|| die(format!("lift-match: fn `{}` has no match #{nth} (lost anchor)", args[1])));
    let (ms, me) = (src.s(m.span()), src.e(m.span()));
    let (ss, se) = (src.s(m.expr.span()), src.e(m.expr.span()));
    println!("/* lifted from {}:{}-{} ; scrutinee `{}` replaced */", src.path, src.line_of(ms), src.line_of(me), src.slice(ss, se).replace("*/", "* /"));
    print!("{}{}{}", src.slice(ms, ss), args[3], src.slice(se, me));
    println!();
}

/// lift-fn <file> <fn path> : prints the whole fn item (signature + body), source bytes.
fn cmd_lift_fn(args: &[String]) {
    if args.len() != 2 {
        die("usage: vx-extract lift-fn <file> <fn path>");
    }
    let src = Src::load(&args[0]);
    let ast = syn::parse_file(&src.text).unwrap_or_else(|e| die(format!("cannot parse {}: {e}", src.path)));
    let (sig, block) = find_fn(&ast, &args[1]);
    let (a, b) = (src.s(sig.span()), src.e(block.span()));
    println!("/* lifted from {}:{}-{} */", src.path, src.line_of(a), src.line_of(b));
    println!("{}", src.slice(a, b));
}

/// lift-item <file> <name> : prints an enum/struct item without attributes (variants verbatim).
fn cmd_lift_item(args: &[String]) {
    if args.len() != 2 {
        die("usage: vx-extract lift-item <file> <name>");
    }
    let src = Src::load(&args[0]);
    let ast = syn::parse_file(&src.text).unwrap_or_else(|e| die(format!("cannot parse {}: {e}", src.path)));
    for it in &ast.items {
        match it {
            syn::Item::Enum(e) if e.ident == args[1].as_str() => {
                let (a, b) = (src.s(e.enum_token.span()), src.e(it.span()));
                println!("/* lifted from {}:{}-{} (item attributes dropped) */", src.path, src.line_of(a), src.line_of(b));
                // drop variant attributes such as #[default]
                let mut text = String::new();
                let mut pos = a;
                for v in &e.variants {
                    for at in &v.attrs {
                        let (x, y) = (src.s(at.span()), src.e(at.span()));
                        text.push_str(src.slice(pos, x));
                        pos = y;
                    }
                }
                text.push_str(src.slice(pos, b));
                println!("pub {}", text);
                return;
            }
            _ => {}
        }
    }
    die(format!("lift-item: `{}` not found in {} (lost anchor)", args[1], src.path));
}

fn main() {
    let args: Vec<String> = std::env::args().skip(1).collect();
    if args.is_empty() {
        die("usage: vx-extract <unit|lift-match|lift-fn|lift-item> ...");
    }
    match args[0].as_str() {
        "unit" => cmd_unit(&args[1..]),
        "lift-match" => cmd_lift_match(&args[1..]),
        "lift-fn" => cmd_lift_fn(&args[1..]),
        "lift-item" => cmd_lift_item(&args[1..]),
        s => die(format!("unknown subcommand {s}")),
    }
}
