#!/bin/bash
# tools/validate_seed.sh <seed-out-dir> <name>
# Confirms a seeded change independently: (1) demo passes on the pristine tree, (2) with the patch the existing
# suite still passes, (3) with the patch the demo fails.  Works in a scratch worktree of /repo HEAD; removes it.
set -u
src=$1; name=$2; flags=${3:--p sylvia}
wt=/tmp/vs/$name
mkdir -p /tmp/vs /verif/.build/seedlogs
git -C /repo worktree remove --force "$wt" >/dev/null 2>&1
git -C /repo worktree add --detach "$wt" HEAD >/dev/null 2>&1 || { echo "$name: cannot create worktree"; exit 2; }
export CARGO_TARGET_DIR=/tmp/vs/target   # shared between seeds: same deps
demo=seed_demo_$name
cp "$src/demo.rs" "$wt/sylvia/tests/$demo.rs"
# auxiliary trybuild files, if any
if ls "$src"/overlap.* >/dev/null 2>&1; then n=$(grep -o 'seed_demo_[0-9]*' "$src/demo.rs" | head -1); mkdir -p "$wt/sylvia/tests/$n"; cp "$src"/overlap.* "$wt/sylvia/tests/$n/"; fi
log=/verif/.build/seedlogs/validate_$name.log
: > $log
# auxiliary case directories (trybuild), copied under their own name; the demo refers to them by that name
for d in "$src"/seed_demo_*_cases; do [ -d "$d" ] && cp -r "$d" "$wt/sylvia/tests/" && dn=$(basename "$d") && sed -i "s#seed_demo_[0-9]*_cases#$dn#g" "$wt/sylvia/tests/$demo.rs"; done
(cd $wt && cargo test $flags --offline --test $demo >> $log 2>&1); pristine=$?
if ! git -C "$wt" apply --3way "$src/patch.diff" >> $log 2>&1; then echo "$name: PATCH-DOES-NOT-APPLY"; git -C /repo worktree remove --force "$wt"; exit 2; fi
(cd $wt && cargo test $flags --offline --test $demo >> $log 2>&1); patched=$?
rm -f "$wt/sylvia/tests/$demo.rs"
(cd $wt && cargo test --workspace --no-fail-fast --offline >> $log 2>&1); suite=$?
echo "$name: demo_on_pristine_exit=$pristine demo_with_patch_exit=$patched suite_with_patch_exit=$suite"
git -C /repo worktree remove --force "$wt"
