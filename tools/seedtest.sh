#!/bin/bash
# tools/seedtest.sh <name> <patch.diff> <prop> [<prop>...]
# Runs the registered quick checks of the given properties against a scratch worktree of /repo HEAD with the
# patch applied (VERIF_REPO=<worktree>), then removes the worktree.  Nothing is applied to /repo itself.
set -u
name=$1; patch=$2; shift 2
wt=/tmp/st/$name
mkdir -p /tmp/st /verif/.build/seedlogs
git -C /repo worktree remove --force "$wt" >/dev/null 2>&1
git -C /repo worktree add --detach "$wt" HEAD >/dev/null 2>&1 || { echo "cannot create worktree"; exit 2; }
if ! git -C "$wt" apply --3way "$patch" 2>/tmp/st/$name.applyerr; then echo "PATCH-DOES-NOT-APPLY $(cat /tmp/st/$name.applyerr | head -3)"; git -C /repo worktree remove --force "$wt"; exit 2; fi
cd /verif
for p in "$@"; do
  tier=${SEED_TIER:-quick}
  VERIF_REPO=$wt VERIF_JOBS=${VERIF_JOBS:-6} ./check $p --tier $tier > .build/seedlogs/$name.$p.log 2>&1
  echo "$name $p exit=$? $(grep -cE '^VIOLATION' .build/seedlogs/$name.$p.log) violation-lines; $(grep -E '^(property=|UNDECIDED property)' .build/seedlogs/$name.$p.log | head -2 | cut -c1-300)"
done
git -C /repo worktree remove --force "$wt"
tag=$(python3 -c "import hashlib,sys;print(hashlib.sha256(sys.argv[1].encode()).hexdigest()[:10])" "$wt")
rm -rf /verif/.build/kani-target-$tag /verif/.build/kx-$tag /verif/.build/replay-target-$tag /verif/.build/replay-$tag /verif/.build/kern-$tag /verif/.build/kern-target-$tag /verif/.build/native-target-$tag 2>/dev/null
# (the per-tag evidence directory .build/evidence-$tag is kept: the seed logs point into it)
