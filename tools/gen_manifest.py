#!/usr/bin/env python3
"""Regenerates MANIFEST.json from the tables below (kept in one place so it stays valid)."""
import json, os
HERE = os.path.dirname(os.path.dirname(os.path.abspath(__file__)))

CLAIMED = {
    "C05": dict(cat="proof", tech="contract-based deductive verification: Verus on mechanically extracted real function bodies (two passes)",
                text="Clause 1 (overlap scan) is PROVED for every N, every list length and every string: Verus discharges, on the bodies of sylvia/src/utils.rs extracted verbatim on each run (rewrites R1-R3), pass A `disjoint(msgs) => no panic!/unreachable!() reachable, indices in bounds, no overflow, termination` and pass B `all_sorted(msgs) and normal return => disjoint(msgs)`. Clause 2 (published list is sorted and equals the wire names) is bounded over programs (fixture corpus) and is reported separately in evidence; the `const _` call site is uncovered.",
                note="Trusted: Verus+Z3; R1 (for_range! unrolled), R2 (konst::cmp_str/eq_str contracts assumed: strict lexicographic total order / equality), R3 (panic! diverges); &str viewed as Seq<char>. Bounded Kani run of the unmodified function cross-checks R1/R2 but is not counted as proof.",
                ref="§3"),
    "C11": dict(cat="proof", tech="contract-based deductive verification: Verus on mechanically extracted real function bodies, dependency types as mechanical skeletons",
                text="The conversion functions IntoMsg::into_msg and IntoResponse::into_response are PROVED against the property's postcondition for all responses and two feature sets ({staking}; {staking,stargate,cosmwasm_2_0}), relative to the listed dependency contracts. The generator's wiring of the bridged dispatch arm is uncovered (CBMC timeout, DESIGN.md §4).",
                note="Trusted: Verus+Z3; R4 (trait impl -> inherent impl), R5 (iterator map/collect contract assumed), R6 (error text dropped), R7 (cosmwasm-std type skeletons re-extracted each run, payload types opaque), R8 (Response builder contracts assumed).",
                ref="§4"),
}

NOT_APPLICABLE = {
    "C12": "equivalence of two histories on cw_multi_test::App (BTreeMap storage, bech32, sha256, anyhow downcasts): no function-level contract within reach of Verus or Kani (DESIGN.md §1, §2.4)",
    "C13": "StripInput is a syn::fold::Fold over the whole AST and determinism is absence of hidden state; neither is expressible over types the installed verifiers can see (DESIGN.md §1)",
    "C16": "the table is built at run time by cosmwasm_schema/schemars (BTreeMap<String, RootSchema>); extract_return_type is syn-typed; out of reach of both verifiers (DESIGN.md §2.4)",
    "C18": "rejection is an emit_error! side effect of syn-typed code, observable only as a failed build; a verifier proves things about programs that compile (the one separable predicate, ReplyOn::excludes, is proved as a lifted kernel under C07)",
    "C19": "hygiene is a name-resolution fact about emitted tokens decided by rustc's resolver, not by a contract on any function",
}
PENDING = {}

def main():
    props = [json.loads(l) for l in open(os.path.join(HERE, "properties.jsonl"))]
    checks, na = [], []
    for p in props:
        i = p["id"]
        if i in CLAIMED:
            c = CLAIMED[i]
            checks.append({
                "property_id": i,
                "quick_cmd": "./check %s --tier quick" % i,
                "thorough_cmd": "./check %s --tier thorough" % i,
                "evidence_file": "/verif/evidence/%s.json" % i,
                "replay_cmd_template": "./check %s --replay {path}" % i,
                "engine": "contracts",
                "level_claimed": {"category": c["cat"], "text": c["text"], "design_ref": "DESIGN.md " + c["ref"]},
                "level_note": c["note"],
                "technique": c["tech"],
            })
        else:
            reason = NOT_APPLICABLE.get(i) or PENDING.get(i) or "not yet brought under contract by this machinery (work in progress; see DESIGN.md §1 for the intended obligations)"
            na.append({"property_id": i, "reason": reason})
    m = {
        "version": 1,
        "setup_cmd": "./setup.sh",
        "hooks": {"guard": "none (no hooks: nothing under /repo is instrumented; Kani sees the real crates through a path dependency and cfg(kani) exists only inside /verif/kani)",
                  "enable": "n/a", "baseline_off_cmd": "cd /repo && cargo test --workspace --no-fail-fast --offline", "source_commits": [], "add_only": True},
        "engines": [
            {"name": "V", "path": "/verif/vlib/verus_engine.py", "serves_properties": ["C05", "C11"], "kind_free_text": "Verus on function bodies extracted mechanically from /repo by tools/vx-extract with contracts spliced at structural positions"},
            {"name": "K/G/KT", "path": "/verif/vlib/kani_engine.py", "serves_properties": [c for c in CLAIMED if c not in ("C11",)], "kind_free_text": "Kani (CBMC) harnesses stating pre/postconditions on real run-time functions, on code generated by the current tree's macros for a fixture corpus, and on match tables lifted verbatim from sylvia-derive"},
        ],
        "checks": checks,
        "not_applicable": na,
        "notes": "Exit 2 from a check means undecided (tooling, lost anchor, solver limit) and is never an alarm. Known findings: /verif/known_findings.txt.",
    }
    json.dump(m, open(os.path.join(HERE, "MANIFEST.json"), "w"), indent=1)
    print("MANIFEST.json: %d checks, %d not_applicable" % (len(checks), len(na)))

if __name__ == "__main__":
    main()
