#!/usr/bin/env python3
"""Writes seeded/<id>/meta.json from the validation and detection logs under .build/ (run after tools/validate_seed.sh and tools/seedtest.sh)."""
import json, os, re, glob
HERE = os.path.dirname(os.path.dirname(os.path.abspath(__file__)))
NEEDS = {
 "C02_1": ("C02 (also C11)", "IntoMsg::into_msg rebuilt with `..SubMsg::new(msg)`: gas_limit silently becomes None", "a bridged (`: custom(msg)`) interface handler returning a sub-message with gas_limit set"),
 "C02_2": ("C02", "dispatch leg takes positional call arguments from a BTreeMap keyed by field1..fieldN: lexicographic order (field1, field10, field11, field2 ...)", "a handler with ten or more parameters of compatible types"),
 "C05_1": ("C05", "konst::cmp_str replaced by a local sorts_before() whose prefix branch is inverted (`burn_from` sorts before `burn`)", "one part has a name that is a proper prefix of the shared name right before it, the other part has a further name after the shared one"),
 "C05_2": ("C05 (also C03)", "published name list taken from the method identifier instead of the wire name", "a method whose identifier is not canonical snake_case (camelCase, leading/trailing/double underscore, `step_2`)"),
 "C06_1": ("C06", "migrate/reply decisions merged into one chain using take_while instead of filter: overriding migrate also drops the generated reply entry point", "a contract that overrides migrate AND declares a reply handler"),
 "C06_2": ("C06 (also C04)", "generated sudo entry point takes the contract-only SudoMsg instead of the ContractSudoMsg wrapper", "an interface sudo message sent through the generated entry_points::sudo"),
 "C07_1": ("C07 (also C14)", "success/error arm selection by slice position instead of find(): assumes success is listed first and error last", "one handler name shared by two methods with the error method declared before the success method"),
 "C07_2": ("C07", "pass-through arm builds a fresh Response when data is present, dropping the forwarded events", "error-only handler name, Ok result, data present AND events non-empty"),
 "C08_1": ("C08 (also C14)", "reply_on derived from the first two handlers by position; (error, success) order falls into the error-only arm", "success+error methods under one name with the error method declared first"),
 "C08_2": ("C08", "SubMsg setter merged with the WasmMsg/CosmosMsg converter: hard-codes gas_limit None", "receiver is an existing SubMsg with a gas limit set"),
 "C11_1": ("C11", "into_msg returns early with SubMsg::new(msg) for ReplyOn::Never: id, payload and gas limit reset", "a ReplyOn::Never sub-message with gas_limit (or id/payload) set, through a bridged handler"),
 "C11_2": ("C11", "into_response returns early (before resp.data = self.data) when there are no sub-messages", "a bridged response with data set and zero sub-messages"),
 "C01_1": ("C01 (also C15)", "`#[serde(skip)]` lost on the `_Phantom` helper variant of generic exec/sudo message types: `{\"__phantom\":null}` is accepted", "a generic contract whose exec or sudo handler uses a type parameter; the foreign key `__phantom`"),
 "C01_2": ("C01 (also C05/C03 lists stay self-consistent)", "every variant gets an explicit serde(rename) computed with convert_case's snake case (`mint_v2` -> `mint_v_2`)", "a handler name with a word ending in digits, compared against the method's own name"),
 "C03_1": ("C03 (also C05)", "name list taken from the method identifier (same slip as C05_2, found independently)", "a method whose wire name differs from its Rust name"),
 "C03_2": ("C03 (also C05, C14)", "the contract's own name list is no longer sorted before emission", "contract methods declared in non-alphabetical order (the overlap scan then misses collisions)"),
 "C04_1": ("C04 (also C06)", "override key `instantiate` mapped to MsgType::Exec", "a contract carrying sv::override_entry_point(instantiate=..)"),
 "C04_2": ("C04 (also C02)", "instantiate/migrate dispatch calls the handler by a name re-derived with convert_case (`setup2` -> `setup_2`)", "an instantiate or migrate handler whose name contains a digit, plus a twin handler of another kind under the round-tripped name"),
 "C09_1": ("C09", "mandatory raw mode treats present-but-empty data as missing", "mode exactly `raw` and data = Some(empty)"),
 "C09_2": ("C09", "`instantiate, opt` swallows an undecodable envelope and calls the handler with None", "mode exactly `instantiate, opt` and data that is not a response envelope"),
 "C10_1": ("C10", "ExecutorBuilder::with_funds extends the stored funds instead of replacing them", "with_funds called more than once on the same builder"),
 "C10_2": ("C10", "build2 with an empty salt falls back to plain WasmMsg::Instantiate", "feature cosmwasm_1_2 and a zero-length salt"),
 "C14_1": ("C14 (also C08)", "reply_on of a shared reply id depends on which handler is declared first (slice pattern [Success, Error] only)", "success+error methods under one name, error declared first, sub-message built through the generated helper"),
 "C14_2": ("C14 (also C05, C03)", "contract name list no longer sorted; the overlap scan needs sorted input", "non-alphabetical handler order plus a name collision positioned so that the merge walk misses it"),
 "C15_1": ("C15", "where-predicate filter keeps a predicate if ANY mentioned parameter is used (was: all)", "a predicate relating a parameter used by a message and one that is not"),
 "C15_2": ("C15", "a type parameter used only through `resp=` of a query is no longer counted as used", "a generic query with `#[sv::msg(query, resp=T)]` where T occurs in no argument"),
 "C17_1": ("C17", "only the first contiguous run of a kind's sv::msg_attr lines is forwarded", "two sv::msg_attr lines of one kind separated by another kind's line"),
 "C17_2": ("C17", "sv::attr written above the sv::msg line is silently discarded", "`#[sv::attr(..)]` preceding `#[sv::msg(..)]` on a handler"),
 "C20_1": ("C20", "Remote's JsonSchema gets a schema_id() built from type_name::<Contract>(): definitions named Remote, Remote2, ... depending on the parameter", "one root schema holding two Remote handles with different type parameters"),
 "C02b_1": ("C02 (multitest path)", "multitest instantiate-with-salt body rebuilt on InstantiateBuilder without .with_funds(..): funds dropped", "features mt + cosmwasm_1_2, .with_salt(..) together with non-empty .with_funds(..) on the generated multitest proxy (contract/mt.rs, behind cw_multi_test: outside every claimed clause)"),
 "C02b_2": ("C02 (also C11)", "cfg-gated arms of IntoMsg::into_msg regrouped: CosmosMsg::Distribution ends up under `stargate` instead of `staking`", "default features (staking without stargate) and a bridged handler returning a distribution message"),
 "C03b_1": ("C03 (also C05)", "the `const _` overlap check is emitted only when the contract declares more than one interface", "a contract with exactly one interface whose own message shares a name with an interface message"),
 "C03b_2": ("C03", "unsupported-message error text rebuilt with supported[1..] / supported[0]: panics when the kind has no message at all", "a Contract<K>Msg of a kind for which neither the contract nor its interfaces define a message, given a one-key object (the hand-written Deserialize: outside the covered clauses)"),
 "C04b_1": ("C04 (multitest path)", "multitest Contract impl: sudo and migrate bodies swapped when only migrate is overridden", "override of migrate without override of sudo, through cw_multi_test (contract/mt.rs: outside every claimed clause)"),
 "C04b_2": ("C04 (multitest path)", "multitest Contract impl: instantiate and execute bodies swapped when only instantiate is overridden", "override of instantiate only, through cw_multi_test (contract/mt.rs: outside every claimed clause)"),
 "C06b_1": ("C06", "guard of the optional reply entry point copy-pasted from migrate: checks MsgType::Migrate", "a reply handler plus an override of migrate (reply disappears) or of reply (generated reply stays)"),
 "C06b_2": ("C06", "generated sudo entry point takes the contract-only SudoMsg (found independently of C06_2)", "an interface sudo message through entry_points::sudo"),
 "C07b_1": ("C07", "pass-through arm takes the answer's data from msg_responses[0].value instead of data", "error-only handler name, Ok result, data differing from the first message response (or msg_responses empty)"),
 "C07b_2": ("C07", "failure-outcome arms build the context from (deps, env): gas_used is 0 on failure", "an error or always method, a failed sub-message, non-zero gas_used"),
 "C08b_1": ("C08", "builder passes a lone typed (not raw-marked) Binary payload without JSON-encoding it", "exactly one payload parameter of type Binary without #[sv::payload(raw)] (payload signature outside the covered cells: CBMC does not finish the base64 encoder)"),
 "C08b_2": ("C08", "SubMsg receiver keeps a reply_on it already carries unless it is Never", "a SubMsg receiver built with reply_on_success / reply_on_error / reply_always, or chained builders"),
 "C09b_1": ("C09", "`instantiate, opt` treats missing data as an error", "mode exactly `instantiate, opt` and data absent"),
 "C09b_2": ("C09", "typed `opt` turns an undecodable envelope into None", "mode exactly `opt` and data present but not an envelope (cell outside the covered ones: reaches from_json, CBMC does not finish)"),
 "C11b_1": ("C11", "bridged sudo arm gets a `cheap path` for responses without sub-messages that forgets the events", "custom(msg) interface, sudo kind, response with events and no sub-messages"),
 "C11b_2": ("C11", "CosmosMsg::Distribution arm under the wrong feature gate (found independently of C02b_2)", "default features and a distribution message"),
 "C01c_1": ("C01", "every Option-typed field gets #[serde(skip_serializing_if = \"Option::is_none\")]: an unset optional argument loses its entry", "an Option argument whose value is None, and a look at the serialised form"),
 "C01c_2": ("C01 (also C17)", "a forwarded serde(..) container attribute that does not set rename_all drops the snake_case renaming (|| instead of &&)", "sv::msg_attr(kind, serde(<anything but rename_all>)) on a kind with messages"),
 "C05c_1": ("C05", "the selector caches the smallest head of the FIRST ongoing list and never updates it", "at least three parts; the shared name in two lists other than the first, positioned so that the walk advances past it"),
 "C05c_2": ("C05", "one overlap assertion per (interface, contract) pair instead of one over all parts: interface-vs-interface comparisons are lost", "two interfaces sharing a name that the contract itself does not use"),
 "C10c_1": ("C10", "InstantiateBuilder::with_funds rebuilt with ..Self::new(..): admin and label set before it are reset", "with_admin or with_label called BEFORE with_funds"),
 "C10c_2": ("C10", "ExecutorBuilder::with_funds normalises funds through Coins and drops them on failure", "a repeated denom, a zero-amount coin, or coins not in denom order"),
 "C14c_1": ("C14", "ReplyData::merge always skips the first parameter of the second-declared method", "success (without data) + error under one name, error declared first: rejected, the other order accepted"),
 "C14c_2": ("C14", "an `already declared` guard on sv::messages keyed on the LAST path segment, ignoring the alias", "two interfaces whose module paths end in the same segment, told apart by `as` aliases"),
 "C15c_1": ("C15", "handler arguments are scanned for type parameters only when their top-level type is a plain path", "a parameter reaching a message kind only through a top-level tuple, array or qualified-self path"),
 "C15c_2": ("C15", "the generic-usage scan no longer descends into paths of more than one segment", "a parameter used only inside a module-qualified generic type (std::vec::Vec<T>)"),
 "C17c_1": ("C17", "msg_attr kind match refactored into a table whose `reply` row says Sudo", "sv::msg_attr(reply, ..): must land on no type, lands on SudoMsg"),
 "C17c_2": ("C17", "forwarded attributes dropped on field-less InstantiateMsg / MigrateMsg", "an instantiate or migrate handler without arguments plus sv::msg_attr for that kind"),
 "C20c_1": ("C20", "decoding a Remote lower-cases the address", "an address containing an upper-case character"),
 "C20c_2": ("C20", "schema_name derived from type_name with rsplit_once('<')", "a type parameter written with angle brackets (generic contract, dyn Interface<Error = E>)"),
 "C02d_1": ("C02", "the bridged custom(msg) arm turns the handler's error into StdError::generic_err(err.to_string()) before converting", "a bridged exec/sudo handler returning a non-Std error (the Err path of the bridged arm does not finish under CBMC: outside the covered cells)"),
 "C02d_2": ("C02", "From<(Deps, Env)> for QueryCtx sets env.transaction to None", "a query whose caller's Env has transaction: Some(..), and a handler that reads it"),
 "C07d_1": ("C07", "the always arm moves events and msg_responses into the ReplyCtx and rebuilds `result` from what is left", "an always handler, a successful sub-message carrying events, and a handler that reads them from `result`"),
 "C07d_2": ("C07", "the uncovered-failure arm returns generic_err(format!(\"Reply id {} failed: {}.\")) instead of generic_err(error)", "a failed result under an id that has only a success method (the harnesses observe the error text through the echo error type's side channel since this seed)"),
 "C09d_1": ("C09", "typed modes accept bare JSON when the envelope is malformed", "a typed execute mode and data that is valid JSON but not an envelope (typed cells: CBMC does not finish)"),
 "C09d_2": ("C09", "JSON-level decode failure panics when env.transaction is None", "typed mode, well-formed envelope whose inner JSON does not decode, env.transaction == None (reaches from_json: uncovered)"),
 "C20_2": ("C20", "Remote.addr deserialised as a borrowed &'de str: owned strings (escapes) are rejected", "an address containing a character that JSON escapes; at the serde data-model level: any format handing out non-borrowed strings"),
}

def main():
    val = {}
    for f in glob.glob(os.path.join(HERE, ".build", "validate_seeds.log")) + glob.glob(os.path.join(HERE, ".build", "seed_queue*.log")):
        for line in open(f):
            m = re.match(r"(C\d\d[bcd]?_\d): demo_on_pristine_exit=(\d+) demo_with_patch_exit=(\d+) suite_with_patch_exit=(\d+)", line)
            if m:
                val[m.group(1)] = dict(demo_on_unchanged_tree="passes" if m.group(2) == "0" else "FAILS", demo_with_change="fails" if m.group(3) != "0" else "PASSES",
                                       existing_suite_with_change="passes" if m.group(4) == "0" else "FAILS")
    det = {}
    for f in sorted(glob.glob(os.path.join(HERE, ".build", "seed_queue*.log"))) + [os.path.join(HERE, ".build", "seed_manual.log")]:
        if not os.path.exists(f):
            continue
        for line in open(f):
            m = re.match(r"(C\d\d[bcd]?_\d) (C\d\d) exit=(\d+) (\d+) violation-lines; (.*)", line)
            if m:
                det.setdefault(m.group(1), {})[m.group(2)] = dict(check_exit=int(m.group(3)), violation_lines=int(m.group(4)), summary=m.group(5).strip()[:200])
    for sid, (prop, what, needs) in sorted(NEEDS.items()):
        d = os.path.join(HERE, "seeded", sid)
        if not os.path.isdir(d):
            continue
        obligations = {}
        for p in det.get(sid, {}):
            lf = os.path.join(HERE, ".build", "seedlogs", "%s.%s.log" % (sid, p))
            if os.path.exists(lf):
                obligations[p] = [re.sub(r".*replay/%s-" % p, "", l.split("replay=")[1].split(".json")[0]) for l in open(lf) if l.startswith("VIOLATION")][:8]
        meta = {
            "id": sid, "breaks_property": prop, "change": what, "needs_to_manifest": needs,
            "files": sorted(os.listdir(d)),
            "confirmed_by_me": dict(val.get(sid, {}), how="tools/validate_seed.sh: scratch worktree of /repo HEAD; demo placed at sylvia/tests/, run before and after `git apply patch.diff`; then the whole existing suite with the change applied"),
            "detection": {p: dict(v, refuted_obligations=obligations.get(p, [])) for p, v in det.get(sid, {}).items()},
            "detection_how": "tools/seedtest.sh: `VERIF_REPO=<scratch worktree with the change> ./check <property> --tier quick` (exit 1 + VIOLATION lines = caught); nothing is applied to /repo",
            "origin": "written by an independent sub-agent that saw only the property text and its own scratch worktree (nothing from /verif)",
        }
        json.dump(meta, open(os.path.join(d, "meta.json"), "w"), indent=1)
    # table for DESIGN.md §8
    rows = ["| seed | property | what it needs to manifest | caught by (quick check: refuted obligations) |", "|---|---|---|---|"]
    for sid, (prop, what, needs) in sorted(NEEDS.items()):
        mp = os.path.join(HERE, "seeded", sid, "meta.json")
        if not os.path.exists(mp):
            continue
        m = json.load(open(mp))
        caught = []
        for p, v in sorted(m["detection"].items()):
            if v["check_exit"] == 1:
                obs = v.get("refuted_obligations", [])
                caught.append("%s (%d%s)" % (p, v["violation_lines"], (": " + ", ".join("`%s`" % o.split(".", 2)[-1] for o in obs[:2])) if obs else ""))
            elif v["check_exit"] == 0:
                caught.append("%s: not caught" % p)
            else:
                caught.append("%s: undecided (exit 2)" % p)
        rows.append("| `%s` | %s | %s | %s |" % (sid, prop, needs, "; ".join(caught) or "not yet run"))
    bn = []
    for f in sorted(glob.glob(os.path.join(HERE, ".build", "seed_queue*.log"))) + [os.path.join(HERE, ".build", "seed_manual.log")]:
        if os.path.exists(f):
            for line in open(f):
                m2 = re.match(r"(BNq?_\w+) (C\d\d) exit=(\d+)", line)
                if m2:
                    bn.append("`%s` on %s: exit %s" % (m2.group(1), m2.group(2), m2.group(3)))
    table = "\n".join(rows) + "\n\nProperty-preserving refactorings (must not alarm): " + ("; ".join(bn) or "not yet run") + ".\n"
    dp = os.path.join(HERE, "DESIGN.md")
    d = open(dp).read()
    a, b = d.index("<!-- SEED-TABLE-BEGIN -->"), d.index("<!-- SEED-TABLE-END -->")
    d = d[:a] + "<!-- SEED-TABLE-BEGIN -->\n" + table + d[b:]
    open(dp, "w").write(d)
    print("meta.json written for", len([s for s in NEEDS if os.path.isdir(os.path.join(HERE, "seeded", s))]), "seeds;",
          "validated:", len(val), "with detection results:", len(det))

if __name__ == "__main__":
    main()
