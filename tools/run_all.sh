#!/bin/bash
# tools/run_all.sh [quick|thorough] : every registered check in sequence on /repo; prints one summary line per property.
tier=${1:-quick}
cd "$(dirname "$0")/.."
mkdir -p .build/runlogs
rc_all=0
for p in $(python3 -c "import json;print(' '.join(c['property_id'] for c in json.load(open('MANIFEST.json'))['checks']))"); do
  t0=$(date +%s)
  ./check $p --tier $tier > .build/runlogs/$p.$tier.log 2>&1; rc=$?
  t1=$(date +%s)
  echo "$p rc=$rc $((t1-t0))s $(grep -E '^property=' .build/runlogs/$p.$tier.log | tail -1)"
  [ $rc -ne 0 ] && rc_all=1 && grep -E '^(VIOLATION|UNDECIDED)' .build/runlogs/$p.$tier.log | head -5
done
exit $rc_all
