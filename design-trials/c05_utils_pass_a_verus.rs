use vstd::prelude::*;
verus! {

#[derive(Debug, Copy, Clone, PartialEq, Eq)]
enum State {
    Ongoing(usize),
    Finished(usize),
    Empty,
}

// ---------- spec: byte-lexicographic order assumed of konst::cmp_str ----------


pub open spec fn lex_lt(a: Seq<char>, b: Seq<char>) -> bool
    decreases a.len()
{
    if b.len() == 0 { false }
    else if a.len() == 0 { true }
    else if (a[0] as u32) < (b[0] as u32) { true }
    else if (a[0] as u32) > (b[0] as u32) { false }
    else { lex_lt(a.subrange(1, a.len() as int), b.subrange(1, b.len() as int)) }
}

proof fn lex_irrefl(a: Seq<char>)
    ensures !lex_lt(a, a)
    decreases a.len()
{
    if a.len() > 0 { lex_irrefl(a.subrange(1, a.len() as int)); }
}

proof fn lex_trans(a: Seq<char>, b: Seq<char>, c: Seq<char>)
    requires lex_lt(a, b), lex_lt(b, c)
    ensures lex_lt(a, c)
    decreases a.len()
{
    if a.len() > 0 && b.len() > 0 && c.len() > 0 {
        if a[0] == b[0] && b[0] == c[0] {
            lex_trans(a.subrange(1, a.len() as int), b.subrange(1, b.len() as int), c.subrange(1, c.len() as int));
        }
    }
}

proof fn lex_total(a: Seq<char>, b: Seq<char>)
    ensures lex_lt(a, b) || lex_lt(b, a) || a == b
    decreases a.len()
{
    if a.len() > 0 && b.len() > 0 {
        if a[0] == b[0] {
            let a1 = a.subrange(1, a.len() as int);
            let b1 = b.subrange(1, b.len() as int);
            lex_total(a1, b1);
            if a1 == b1 {
                assert(a =~= seq![a[0]] + a1);
                assert(b =~= seq![b[0]] + b1);
            }
        }
    } else if a.len() == 0 && b.len() == 0 {
        assert(a =~= b);
    }
}

#[verifier::external_body]
const fn konst_cmp_str(a: &str, b: &str) -> (r: std::cmp::Ordering)
    ensures (r == std::cmp::Ordering::Less) == lex_lt(a@, b@),
            (r == std::cmp::Ordering::Greater) == lex_lt(b@, a@),
            (r == std::cmp::Ordering::Equal) == (a@ == b@),
{ unimplemented!() }

#[verifier::external_body]
const fn eq_str(a: &str, b: &str) -> (r: bool)
    ensures r == (a@ == b@),
{ unimplemented!() }

// ---------- abstraction ----------
spec fn wf_state<const N: usize>(msgs: &[&[&str]; N], s: State, k: int) -> bool {
    match s {
        State::Ongoing(w) => w < msgs[k].len(),
        State::Finished(w) => w + 1 == msgs[k].len(),
        State::Empty => msgs[k].len() == 0,
    }
}
spec fn wf<const N: usize>(msgs: &[&[&str]; N], states: &[State; N]) -> bool {
    forall |k: int| 0 <= k < N ==> wf_state(msgs, #[trigger] states[k], k)
}
spec fn pos<const N: usize>(msgs: &[&[&str]; N], s: State, k: int) -> int {
    match s {
        State::Ongoing(w) => w as int,
        State::Finished(w) => msgs[k].len() as int,
        State::Empty => 0,
    }
}
pub open spec fn sorted_strict(l: &[&str]) -> bool {
    forall |a: int, b: int| 0 <= a < b < l.len() ==> lex_lt(#[trigger] l[a]@, #[trigger] l[b]@)
}
pub open spec fn all_sorted<const N: usize>(msgs: &[&[&str]; N]) -> bool {
    forall |k: int| 0 <= k < N ==> sorted_strict(#[trigger] msgs[k])
}
pub open spec fn disjoint<const N: usize>(msgs: &[&[&str]; N]) -> bool {
    forall |i: int, j: int, a: int, b: int|
        0 <= i < N && 0 <= j < N && i != j && 0 <= a < msgs[i].len() && 0 <= b < msgs[j].len()
        ==> #[trigger] msgs[i][a]@ != #[trigger] msgs[j][b]@
}

const fn should_end<const N: usize>(states: &[State; N]) -> (r: bool)
    ensures r == (forall |k: int| 0 <= k < N ==> !(#[trigger] states[k] is Ongoing)),
{
    let mut i = 0;
    while i < N
        invariant 0 <= i <= N, forall |k: int| 0 <= k < i ==> !(#[trigger] states[k] is Ongoing),
        decreases N - i,
    {
        if let State::Ongoing(..) = states[i] {
            return false;
        }
        i += 1;
    }
    true
}

const fn init_states<const N: usize>(msgs: &[&[&str]; N]) -> (states: [State; N])
    ensures forall |k: int| 0 <= k < N ==> #[trigger] states[k] == (if msgs[k].len() == 0 { State::Empty } else { State::Ongoing(0) }),
{
    let mut states = [State::Ongoing(0); N];
    let mut i = 0;
    while i < N
        invariant 0 <= i <= N,
          forall |k: int| 0 <= k < i ==> #[trigger] states[k] == (if msgs[k].len() == 0 { State::Empty } else { State::Ongoing(0) }),
          forall |k: int| i <= k < N ==> #[trigger] states[k] == State::Ongoing(0),
        decreases N - i,
    {
        if msgs[i].is_empty() {
            states[i] = State::Empty;
        }
        i += 1;
    }
    states
}

spec fn head<const N: usize>(msgs: &[&[&str]; N], states: &[State; N], k: int) -> Seq<char> {
    msgs[k][states[k]->Ongoing_0 as int]@
}

// Finds index of array which is Ongoing and which current value
// is alphabetically smallest
const fn get_next_alphabetical_index<const N: usize>(
    msgs: &[&[&str]; N],
    states: &[State; N],
) -> (r: usize)
    requires wf(msgs, states), exists |k: int| 0 <= k < N && #[trigger] states[k] is Ongoing,
    ensures r < N, states[r as int] is Ongoing,
       forall |k: int| 0 <= k < N && #[trigger] states[k] is Ongoing ==> !lex_lt(head(msgs, states, k), head(msgs, states, r as int)),
{
    let mut output_index = 0;
    let mut i = 0;
    while i < N
        invariant 0 <= i <= N, wf(msgs, states),
          output_index < N,
          output_index <= i,
          (exists |k: int| 0 <= k < i && #[trigger] states[k] is Ongoing) ==> states[output_index as int] is Ongoing,
          states[output_index as int] is Ongoing ==> forall |k: int| 0 <= k < i && #[trigger] states[k] is Ongoing ==> !lex_lt(head(msgs, states, k), head(msgs, states, output_index as int)),
        decreases N - i,
    {
        let ghost old_out = output_index;   // spliced: loop-body-start
        if let State::Ongoing(outer_i) = states[i] {
            match states[output_index] {
                State::Ongoing(inner_i) => {
                    if let std::cmp::Ordering::Greater =
                        konst_cmp_str(msgs[output_index][inner_i], msgs[i][outer_i])
                    {
                        output_index = i;
                    }
                }
                _ => output_index = i,
            }
        }
        proof {                              // spliced: loop-body-end (before the increment R1 appends)
            if states[i as int] is Ongoing {
                lex_irrefl(head(msgs, states, i as int));
                if output_index == i && states[old_out as int] is Ongoing && old_out != i {
                    assert forall |k: int| 0 <= k < i && #[trigger] states[k] is Ongoing implies !lex_lt(head(msgs, states, k), head(msgs, states, i as int)) by {
                        if lex_lt(head(msgs, states, k), head(msgs, states, i as int)) {
                            lex_trans(head(msgs, states, k), head(msgs, states, i as int), head(msgs, states, old_out as int));
                        }
                    }
                }
            }
        }
        i += 1;
    }
    output_index
}

spec fn cursor(s: State) -> int {
    if s is Ongoing { s->Ongoing_0 as int } else { s->Finished_0 as int }
}

const fn verify_no_collissions<const N: usize>(
    msgs: &[&[&str]; N],
    states: &[State; N],
    index: &usize,
)
    requires wf(msgs, states), *index < N, states[*index as int] is Ongoing, disjoint(msgs),
{
    let mut i = 0;
    while i < N
        invariant 0 <= i <= N, wf(msgs, states), *index < N, states[*index as int] is Ongoing, disjoint(msgs),
        decreases N - i,
    {
        if i == *index {
            i += 1;
            continue;
        }
        match states[i] {
            State::Ongoing(outer_i) | State::Finished(outer_i) => {
                if let State::Ongoing(inner_i) = states[*index] {
                    if eq_str(msgs[i][outer_i], msgs[*index][inner_i]) {
                        panic!("Message overlaps between interface and contract impl!");
                    }
                }
            }
            _ => (),
        }
        i += 1;
    }
}
spec fn remaining<const N: usize>(msgs: &[&[&str]; N], states: &[State; N], k: int) -> int
    decreases k
{
    if k <= 0 { 0 } else { remaining(msgs, states, k - 1) + (msgs[k - 1].len() - pos(msgs, states[k - 1], k - 1)) }
}

proof fn remaining_step<const N: usize>(msgs: &[&[&str]; N], s1: &[State; N], s2: &[State; N], idx: int, k: int)
    requires 0 <= idx < N, 0 <= k <= N, wf(msgs, s1), wf(msgs, s2),
       forall |m: int| 0 <= m < N && m != idx ==> s1[m] == s2[m],
       pos(msgs, s2[idx], idx) == pos(msgs, s1[idx], idx) + 1,
    ensures remaining(msgs, s2, k) == remaining(msgs, s1, k) - (if idx < k { 1int } else { 0int }),
       remaining(msgs, s1, k) >= 0, remaining(msgs, s2, k) >= 0,
    decreases k
{
    if k > 0 { remaining_step(msgs, s1, s2, idx, k - 1); }
}


pub const fn assert_no_intersection<const N: usize>(msgs: [&[&str]; N])
    requires disjoint(&msgs),
{
    let mut states = init_states(&msgs);

    while !should_end(&states)
        invariant wf(&msgs, &states), disjoint(&msgs),
        decreases remaining(&msgs, &states, N as int),
    {
        let index = get_next_alphabetical_index(&msgs, &states);
        verify_no_collissions(&msgs, &states, &index);
        let ghost old_states = states;
        states[index] = match states[index] {
            State::Ongoing(wi) => {
                if msgs[index].len() == wi + 1 {
                    State::Finished(wi)
                } else {
                    State::Ongoing(wi + 1)
                }
            }
            _ => unreachable!(),
        };
        proof {
            remaining_step(&msgs, &old_states, &states, index as int, N as int);
        }
    }
}

} // verus!
fn main() {}
