#![allow(dead_code)]
// ---- shim prelude ----
pub struct Error;
impl Error { pub fn new<T>(_: T, _: &str) -> Self { Error } }
pub type Result<T> = std::result::Result<T, Error>;
pub trait SpanShim { fn span(&self) {} }
impl SpanShim for &str {}

#[derive(PartialEq, Eq, Debug, Clone, Copy)]
pub enum MsgType { Exec, Query, Instantiate, Migrate, Reply, Sudo }

impl MsgType {
    // verbatim arms from types/msg_type.rs:15-26, scrutinee replaced by parameter
    pub fn new(msg_type: &str) -> Result<Self> {
        match msg_type {
            "exec" => Ok(Self::Exec),
            "query" => Ok(Self::Query ),
            "instantiate" => Ok(Self::Instantiate),
            "migrate" => Ok(Self::Migrate),
            "reply" => Ok(Self::Reply ),
            "sudo" => Ok(Self::Sudo),
            _ => Err(Error::new(
                msg_type.span(),
                "Invalid message type, expected one of: `exec`, `query`, `instantiate`, `migrate`, `reply` or `sudo`.",
            ))
        }
    }
}

// verbatim match from parser/attributes/override_entry_point.rs:73-86
pub fn override_kind(ty: &str) -> Result<MsgType> {
        let msg_type = match ty {
            "exec" =>  MsgType::Exec,
            "instantiate" =>  MsgType::Instantiate,
            "query" =>  MsgType::Instantiate,
            "migrate" => MsgType::Migrate,
            "reply" => MsgType::Reply,
            "sudo" =>  MsgType::Sudo,
            &_ => {
                return Err(Error::new(
                    ty.span(),
                    "Invalid entry point. Expected exec, instantiate, query, migrate, reply or sudo. Found {ty}",
                ))
            }
        };
    Ok(msg_type)
}

#[cfg(kani)]
mod proofs {
    use super::*;
    #[kani::proof]
    #[kani::unwind(14)]
    fn override_table_equals_msg_table() {
        let bytes: [u8; 12] = kani::any();
        let len: usize = kani::any();
        kani::assume(len <= 12);
        let mut i = 0;
        while i < 12 { kani::assume(bytes[i] < 128); i += 1; }
        let s = unsafe { std::str::from_utf8_unchecked(&bytes[..len]) };
        let a = MsgType::new(s).ok();
        let b = override_kind(s).ok();
        assert!(a == b);
    }

    /// Test generated for harness `proofs::override_table_equals_msg_table`
    ///
    /// Check for `assertion`: "assertion failed: a == b"

    #[test]
    fn kani_concrete_playback_override_table_equals_msg_table_11709873683738065079() {
        let concrete_vals: Vec<Vec<u8>> = vec![
        // 113
        vec![113],
        // 117
        vec![117],
        // 101
        vec![101],
        // 114
        vec![114],
        // 121
        vec![121],
        // 116
        vec![116],
        // 101
        vec![101],
        // 105
        vec![105],
        // 97
        vec![97],
        // 120
        vec![120],
        // 101
        vec![101],
        // 1
        vec![1],
        // 5ul
        vec![5, 0, 0, 0, 0, 0, 0, 0],
    ];
    kani::concrete_playback_run(concrete_vals, override_table_equals_msg_table);
}
}
