use cosmwasm_std::{Response, StdError, Binary};
use sylvia::ctx::{InstantiateCtx, ReplyCtx};
use std::cell::Cell;

#[derive(Debug, PartialEq)]
pub enum Echo { Std, H(u8, u64, u64, u64) }
impl From<StdError> for Echo { fn from(_: StdError) -> Self { Echo::Std } }

pub struct Fix;

#[sylvia::contract]
#[sv::error(Echo)]
#[sv::features(replies)]
impl Fix {
    pub const fn new() -> Self { Fix }
    #[sv::msg(instantiate)]
    fn instantiate(&self, _ctx: InstantiateCtx) -> Result<Response, Echo> { Err(Echo::H(0, 0, 0, 0)) }

    #[sv::msg(reply, reply_on=success)]
    fn typed_opt(&self, ctx: ReplyCtx, #[sv::data(opt)] data: Option<u64>, #[sv::payload(raw)] _p: Binary) -> Result<Response, Echo> {
        Err(Echo::H(1, ctx.gas_used, data.is_some() as u64, data.unwrap_or(0)))
    }
    #[sv::msg(reply, reply_on=success)]
    fn typed_mand(&self, ctx: ReplyCtx, #[sv::data] data: u64, #[sv::payload(raw)] _p: Binary) -> Result<Response, Echo> {
        Err(Echo::H(2, ctx.gas_used, data, 0))
    }
    #[sv::msg(reply, reply_on=success)]
    fn inst_opt(&self, ctx: ReplyCtx, #[sv::data(instantiate, opt)] data: Option<cw_utils::MsgInstantiateContractResponse>, #[sv::payload(raw)] _p: Binary) -> Result<Response, Echo> {
        Err(Echo::H(3, ctx.gas_used, data.is_some() as u64, 0))
    }
    #[sv::msg(reply, reply_on=success)]
    fn raw_mand(&self, ctx: ReplyCtx, #[sv::data(raw)] data: Binary, #[sv::payload(raw)] _p: Binary) -> Result<Response, Echo> {
        Err(Echo::H(4, ctx.gas_used, data.len() as u64, 0))
    }
}

#[cfg(kani)]
mod proofs {
    use super::*;
    use cosmwasm_std::{Addr, DepsMut, Storage, Api, Querier, QuerierWrapper, Empty, QuerierResult, StdResult, CanonicalAddr, RecoverPubkeyError, VerificationError, Env, BlockInfo, Timestamp, ContractInfo, Reply, SubMsgResponse, SubMsgResult};
    struct S(Cell<u64>); struct A(u8); struct Q(u8);
    impl Storage for S {
        fn get(&self, _k: &[u8]) -> Option<Vec<u8>> { None }
        fn set(&mut self, _k: &[u8], _v: &[u8]) {}
        fn remove(&mut self, _k: &[u8]) {}
    }
    impl Api for A {
        fn addr_validate(&self, _h: &str) -> StdResult<Addr> { unimplemented!() }
        fn addr_canonicalize(&self, _h: &str) -> StdResult<CanonicalAddr> { unimplemented!() }
        fn addr_humanize(&self, _c: &CanonicalAddr) -> StdResult<Addr> { unimplemented!() }
        fn secp256k1_verify(&self, _: &[u8], _: &[u8], _: &[u8]) -> Result<bool, VerificationError> { Ok(false) }
        fn secp256k1_recover_pubkey(&self, _: &[u8], _: &[u8], _: u8) -> Result<Vec<u8>, RecoverPubkeyError> { Ok(vec![]) }
        fn ed25519_verify(&self, _: &[u8], _: &[u8], _: &[u8]) -> Result<bool, VerificationError> { Ok(false) }
        fn ed25519_batch_verify(&self, _: &[&[u8]], _: &[&[u8]], _: &[&[u8]]) -> Result<bool, VerificationError> { Ok(false) }
        fn debug(&self, _m: &str) {}
    }
    impl Querier for Q { fn raw_query(&self, _b: &[u8]) -> QuerierResult { unimplemented!() } }
    fn env(h: u64) -> Env {
        Env { block: BlockInfo { height: h, time: Timestamp::from_nanos(0), chain_id: String::new() }, transaction: None, contract: ContractInfo { address: Addr::unchecked("") } }
    }
    fn fmt_stub(_args: std::fmt::Arguments<'_>) -> String { String::new() }
    fn bt_stub() -> std::backtrace::Backtrace { std::backtrace::Backtrace::disabled() }

    fn run_with(id: u64, gas: u64, data: Option<Binary>) -> Result<Response, Echo> {
        let mut s = S(Cell::new(0)); let a = A(0); let q = Q(0);
        let deps = DepsMut { storage: &mut s, api: &a, querier: QuerierWrapper::<Empty>::new(&q) };
        #[allow(deprecated)]
        let result = SubMsgResult::Ok(SubMsgResponse { events: vec![], data, msg_responses: vec![] });
        sv::dispatch_reply(deps, env(1), Reply { id, payload: Binary::default(), gas_used: gas, result }, Fix::new())
    }

    #[kani::proof]
    #[kani::unwind(24)]
    #[kani::stub(alloc::fmt::format, fmt_stub)]
    #[kani::stub(std::backtrace::Backtrace::capture, bt_stub)]
    fn data_some_typed_valid() {
        let gas: u64 = kani::any();
        match run_with(sv::TYPED_MAND_REPLY_ID, gas, Some(Binary::new(vec![0x0a, 0x01, b'5']))) { Err(Echo::H(2, g, d, _)) => assert!(g == gas && d == 5), _ => assert!(false) }
    }

    #[kani::proof]
    #[kani::unwind(24)]
    #[kani::stub(alloc::fmt::format, fmt_stub)]
    #[kani::stub(std::backtrace::Backtrace::capture, bt_stub)]
    fn data_some_typed_garbage_envelope() {
        match run_with(sv::TYPED_MAND_REPLY_ID, kani::any(), Some(Binary::new(vec![0xff]))) { Err(Echo::Std) => (), _ => assert!(false) }
    }

    #[kani::proof]
    #[kani::unwind(6)]
    #[kani::stub(alloc::fmt::format, fmt_stub)]
    #[kani::stub(std::backtrace::Backtrace::capture, bt_stub)]
    fn data_some_raw() {
        let b: [u8; 2] = kani::any(); let gas: u64 = kani::any();
        match run_with(sv::RAW_MAND_REPLY_ID, gas, Some(Binary::new(b.to_vec()))) { Err(Echo::H(4, g, l, _)) => assert!(g == gas && l == 2), _ => assert!(false) }
    }

    fn run(id: u64, gas: u64) -> Result<Response, Echo> {
        let mut s = S(Cell::new(0)); let a = A(0); let q = Q(0);
        let deps = DepsMut { storage: &mut s, api: &a, querier: QuerierWrapper::<Empty>::new(&q) };
        #[allow(deprecated)]
        let result = SubMsgResult::Ok(SubMsgResponse { events: vec![], data: None, msg_responses: vec![] });
        sv::dispatch_reply(deps, env(1), Reply { id, payload: Binary::default(), gas_used: gas, result }, Fix::new())
    }

    #[kani::proof]
    #[kani::unwind(4)]
    #[kani::stub(alloc::fmt::format, fmt_stub)]
    #[kani::stub(std::backtrace::Backtrace::capture, bt_stub)]
    fn data_none_typed_opt() {
        let gas: u64 = kani::any();
        match run(sv::TYPED_OPT_REPLY_ID, gas) { Err(Echo::H(1, g, some, _)) => assert!(g == gas && some == 0), _ => assert!(false) }
    }
    #[kani::proof]
    #[kani::unwind(4)]
    #[kani::stub(alloc::fmt::format, fmt_stub)]
    #[kani::stub(std::backtrace::Backtrace::capture, bt_stub)]
    fn data_none_typed_mand() {
        match run(sv::TYPED_MAND_REPLY_ID, kani::any()) { Err(Echo::Std) => (), _ => assert!(false) }
    }
    #[kani::proof]
    #[kani::unwind(4)]
    #[kani::stub(alloc::fmt::format, fmt_stub)]
    #[kani::stub(std::backtrace::Backtrace::capture, bt_stub)]
    fn data_none_inst_opt() {
        let gas: u64 = kani::any();
        match run(sv::INST_OPT_REPLY_ID, gas) { Err(Echo::H(3, g, some, _)) => assert!(g == gas && some == 0), _ => assert!(false) }
    }
    #[kani::proof]
    #[kani::unwind(4)]
    #[kani::stub(alloc::fmt::format, fmt_stub)]
    #[kani::stub(std::backtrace::Backtrace::capture, bt_stub)]
    fn data_none_raw_mand() {
        match run(sv::RAW_MAND_REPLY_ID, kani::any()) { Err(Echo::Std) => (), _ => assert!(false) }
    }
}
