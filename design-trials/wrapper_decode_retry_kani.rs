//! C03 decode clause, attempted again with the harness discipline learnt while building:
//! the contract-level wrapper's HAND-WRITTEN Deserialize fed with a scripted self-describing document.
#![allow(unused_imports, unused_variables, dead_code)]
use crate::support::*;

#[cfg(kani)]
pub mod proofs {
    use super::*;
    use crate::gen::fx_multi::{ia, ib, sv, Multi};
    use script::{Node, NodeD};
    use serde::Deserialize;

    /// `{ "ia_exec": { "a": x } }` decodes to the interface part's value
    #[kani::proof]
    #[kani::unwind(12)]
    #[kani::stub(alloc::fmt::format, fmt_stub)]
    #[kani::stub(std::backtrace::Backtrace::capture, bt_stub)]
    fn c03_wrapper_decode_iface_msg() {
        let x: u64 = kani::any();
        let inner: [(&str, Node); 1] = [("a", Node::U(x))];
        let doc: [(&str, Node); 1] = [("ia_exec", Node::M(&inner))];
        let r = core::mem::ManuallyDrop::new(sv::ContractExecMsg::deserialize(NodeD(Node::M(&doc))));
        match &*r {
            Ok(sv::ContractExecMsg::Ia(ia::sv::ExecMsg::IaExec { a })) => assert!(*a == x),
            _ => assert!(false),
        }
        kani::cover!(true, "end of harness reachable");
    }
}
