use cosmwasm_std::{Response, StdError, CustomMsg, CustomQuery};
use sylvia::ctx::{ExecCtx, InstantiateCtx};
use serde::{Serialize, Deserialize};
use schemars::JsonSchema;

#[derive(Debug, PartialEq)]
pub enum Echo { Std, H(u8, u64, u64, u64) }
impl From<StdError> for Echo { fn from(_: StdError) -> Self { Echo::Std } }

#[derive(Serialize, Deserialize, Clone, Debug, PartialEq, JsonSchema)]
pub struct MyMsg {}
impl CustomMsg for MyMsg {}
#[derive(Serialize, Deserialize, Clone, Debug, PartialEq, JsonSchema)]
pub struct MyQuery {}
impl CustomQuery for MyQuery {}

pub mod iface {
    use super::*;
    #[sylvia::interface]
    #[sv::custom(msg=cosmwasm_std::Empty, query=cosmwasm_std::Empty)]
    pub trait Iface {
        type Error: From<StdError>;
        #[sv::msg(exec)]
        fn i_exec(&self, ctx: ExecCtx, a: u64, ok: bool) -> Result<Response, Self::Error>;
    }
}

pub struct Fix;

#[sylvia::contract]
#[sv::error(Echo)]
#[sv::custom(msg=MyMsg, query=MyQuery)]
#[sv::messages(iface: custom(msg, query))]
impl Fix {
    pub const fn new() -> Self { Fix }
    #[sv::msg(instantiate)]
    fn instantiate(&self, _ctx: InstantiateCtx<MyQuery>) -> Result<Response<MyMsg>, Echo> { Err(Echo::H(0, 0, 0, 0)) }
}

impl iface::Iface for Fix {
    type Error = Echo;
    fn i_exec(&self, ctx: ExecCtx, a: u64, ok: bool) -> Result<Response, Echo> {
        if ok { Ok(Response::new().set_data(cosmwasm_std::Binary::new(vec![a as u8]))) } else { Err(Echo::H(21, a, 0, ctx.env.block.height)) }
    }
}

#[cfg(kani)]
mod proofs {
    use super::*;
    use cosmwasm_std::{Addr, DepsMut, Storage, Api, Querier, QuerierWrapper, QuerierResult, StdResult, CanonicalAddr, RecoverPubkeyError, VerificationError, Env, BlockInfo, Timestamp, ContractInfo, MessageInfo};
    use std::cell::Cell;
    struct S(Cell<u64>); struct A(u8); struct Q(u8);
    impl Storage for S {
        fn get(&self, _k: &[u8]) -> Option<Vec<u8>> { None }
        fn set(&mut self, _k: &[u8], _v: &[u8]) {}
        fn remove(&mut self, _k: &[u8]) {}
    }
    impl Api for A {
        fn addr_validate(&self, _h: &str) -> StdResult<Addr> { unimplemented!() }
        fn addr_canonicalize(&self, _h: &str) -> StdResult<CanonicalAddr> { unimplemented!() }
        fn addr_humanize(&self, _c: &CanonicalAddr) -> StdResult<Addr> { unimplemented!() }
        fn secp256k1_verify(&self, _: &[u8], _: &[u8], _: &[u8]) -> Result<bool, VerificationError> { Ok(false) }
        fn secp256k1_recover_pubkey(&self, _: &[u8], _: &[u8], _: u8) -> Result<Vec<u8>, RecoverPubkeyError> { Ok(vec![]) }
        fn ed25519_verify(&self, _: &[u8], _: &[u8], _: &[u8]) -> Result<bool, VerificationError> { Ok(false) }
        fn ed25519_batch_verify(&self, _: &[&[u8]], _: &[&[u8]], _: &[&[u8]]) -> Result<bool, VerificationError> { Ok(false) }
        fn debug(&self, _m: &str) {}
    }
    impl Querier for Q { fn raw_query(&self, _b: &[u8]) -> QuerierResult { unimplemented!() } }
    fn env(h: u64) -> Env {
        Env { block: BlockInfo { height: h, time: Timestamp::from_nanos(0), chain_id: String::new() }, transaction: None, contract: ContractInfo { address: Addr::unchecked("") } }
    }
    fn fmt_stub(_args: std::fmt::Arguments<'_>) -> String { String::new() }
    fn bt_stub() -> std::backtrace::Backtrace { std::backtrace::Backtrace::disabled() }

    #[kani::proof]
    #[kani::unwind(4)]
    #[kani::stub(alloc::fmt::format, fmt_stub)]
    #[kani::stub(std::backtrace::Backtrace::capture, bt_stub)]
    fn bridged_arm() {
        let mut s = S(Cell::new(0)); let a = A(0); let q = Q(0);
        let deps = DepsMut { storage: &mut s, api: &a, querier: QuerierWrapper::<MyQuery>::new(&q) };
        let h: u64 = kani::any(); let x: u64 = kani::any(); let ok: bool = kani::any();
        let info = MessageInfo { sender: Addr::unchecked(""), funds: vec![] };
        let msg: sv::ContractExecMsg = iface::sv::ExecMsg::IExec { a: x, ok }.into();
        let r: Result<Response<MyMsg>, Echo> = msg.dispatch(&Fix::new(), (deps, env(h), info));
        match r {
            Err(Echo::H(21, a0, _, h0)) => { assert!(!ok && a0 == x && h0 == h); }
            Ok(resp) => { assert!(ok); assert!(resp.messages.is_empty()); match resp.data { Some(d) => assert!(d.as_slice()[0] == x as u8), None => assert!(false) } }
            _ => assert!(false),
        }
    }
}
