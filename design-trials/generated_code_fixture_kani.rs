use cosmwasm_std::{Response, StdError, Binary, SubMsgResult};
use sylvia::ctx::{ExecCtx, InstantiateCtx, QueryCtx, ReplyCtx, SudoCtx};

#[derive(Debug, PartialEq)]
pub enum Echo {
    Std,
    H(u8, u64, u64, u64),
}
impl From<StdError> for Echo { fn from(_: StdError) -> Self { Echo::Std } }

pub struct Fix;

#[sylvia::contract]
#[sv::error(Echo)]
#[sv::features(replies)]
impl Fix {
    pub const fn new() -> Self { Fix }

    #[sv::msg(instantiate)]
    fn instantiate(&self, ctx: InstantiateCtx, a: u64) -> Result<Response, Echo> {
        Err(Echo::H(0, a, ctx.env.block.height, 0))
    }

    #[sv::msg(exec)]
    fn first(&self, ctx: ExecCtx, a: u64, b: u64) -> Result<Response, Echo> {
        Err(Echo::H(1, a, b, ctx.env.block.height))
    }

    #[sv::msg(exec)]
    fn second(&self, ctx: ExecCtx, a: u64, b: u64) -> Result<Response, Echo> {
        Err(Echo::H(2, a, b, ctx.env.block.height))
    }

    #[sv::msg(query)]
    fn q(&self, _ctx: QueryCtx, a: u64) -> Result<u64, Echo> {
        Ok(a)
    }

    #[sv::msg(sudo)]
    fn su(&self, _ctx: SudoCtx, a: u64) -> Result<Response, Echo> {
        Err(Echo::H(4, a, 0, 0))
    }

    #[sv::msg(reply, handlers=[on_ok], reply_on=success)]
    fn ok_h(&self, ctx: ReplyCtx, #[sv::data(raw, opt)] data: Option<Binary>, #[sv::payload(raw)] payload: Binary) -> Result<Response, Echo> {
        Err(Echo::H(10, ctx.gas_used, payload.len() as u64, data.map(|d| d.len() as u64).unwrap_or(99)))
    }

    #[sv::msg(reply, handlers=[on_ok], reply_on=error)]
    fn err_h(&self, ctx: ReplyCtx, error: String, #[sv::payload(raw)] payload: Binary) -> Result<Response, Echo> {
        Err(Echo::H(11, ctx.gas_used, payload.len() as u64, error.len() as u64))
    }

    #[sv::msg(reply, reply_on=always)]
    fn both(&self, ctx: ReplyCtx, result: SubMsgResult, #[sv::payload(raw)] payload: Binary) -> Result<Response, Echo> {
        Err(Echo::H(12, ctx.gas_used, payload.len() as u64, result.is_ok() as u64))
    }

    #[sv::msg(reply, reply_on=error)]
    fn only_err(&self, ctx: ReplyCtx, error: String, #[sv::payload(raw)] payload: Binary) -> Result<Response, Echo> {
        Err(Echo::H(13, ctx.gas_used, payload.len() as u64, error.len() as u64))
    }
}

#[cfg(kani)]
mod proofs {
    use super::*;
    use cosmwasm_std::{Addr, DepsMut, Deps, Storage, Api, Querier, QuerierWrapper, Empty, QuerierResult, StdResult, CanonicalAddr, RecoverPubkeyError, VerificationError, Env, BlockInfo, Timestamp, ContractInfo, MessageInfo, Reply, SubMsgResponse, SubMsg, CosmosMsg, BankMsg, ReplyOn, WasmMsg};

    struct S; struct A; struct Q;
    impl Storage for S {
        fn get(&self, _k: &[u8]) -> Option<Vec<u8>> { None }
        fn set(&mut self, _k: &[u8], _v: &[u8]) {}
        fn remove(&mut self, _k: &[u8]) {}
    }
    impl Api for A {
        fn addr_validate(&self, _h: &str) -> StdResult<Addr> { Err(StdError::generic_err("x")) }
        fn addr_canonicalize(&self, _h: &str) -> StdResult<CanonicalAddr> { Err(StdError::generic_err("x")) }
        fn addr_humanize(&self, _c: &CanonicalAddr) -> StdResult<Addr> { Err(StdError::generic_err("x")) }
        fn secp256k1_verify(&self, _: &[u8], _: &[u8], _: &[u8]) -> Result<bool, VerificationError> { Ok(false) }
        fn secp256k1_recover_pubkey(&self, _: &[u8], _: &[u8], _: u8) -> Result<Vec<u8>, RecoverPubkeyError> { Ok(vec![]) }
        fn ed25519_verify(&self, _: &[u8], _: &[u8], _: &[u8]) -> Result<bool, VerificationError> { Ok(false) }
        fn ed25519_batch_verify(&self, _: &[&[u8]], _: &[&[u8]], _: &[&[u8]]) -> Result<bool, VerificationError> { Ok(false) }
        fn debug(&self, _m: &str) {}
    }
    impl Querier for Q {
        fn raw_query(&self, _b: &[u8]) -> QuerierResult { unimplemented!() }
    }
    fn env(h: u64) -> Env {
        Env {
            block: BlockInfo { height: h, time: Timestamp::from_nanos(kani::any()), chain_id: String::new() },
            transaction: None,
            contract: ContractInfo { address: Addr::unchecked("") },
        }
    }


    fn fmt_stub(_args: std::fmt::Arguments<'_>) -> String { String::new() }

    fn mk_reply(id: u64, gas: u64, ok: bool, has_data: bool) -> Reply {
        #[allow(deprecated)]
        let result = if ok {
            SubMsgResult::Ok(SubMsgResponse { events: vec![], data: if has_data { Some(Binary::new(vec![1u8, 2])) } else { None }, msg_responses: vec![] })
        } else {
            SubMsgResult::Err("e".to_owned())
        };
        Reply { id, payload: Binary::new(vec![7u8]), gas_used: gas, result }
    }

    #[kani::proof]
    #[kani::unwind(4)]
    #[kani::stub(alloc::fmt::format, fmt_stub)]
    fn reply_routes_known() {
        let mut s = S; let a = A; let q = Q;
        let deps = DepsMut { storage: &mut s, api: &a, querier: QuerierWrapper::<Empty>::new(&q) };
        let id: u64 = kani::any();
        kani::assume(id < 3);
        let gas: u64 = kani::any();
        let ok: bool = kani::any();
        let has_data: bool = kani::any();
        let r = sv::dispatch_reply(deps, env(1), mk_reply(id, gas, ok, has_data), Fix::new());
        if id == sv::ON_OK_REPLY_ID {
            if ok { assert!(r == Err(Echo::H(10, gas, 1, if has_data {2} else {99}))); }
            else { assert!(r == Err(Echo::H(11, gas, 1, 1))); }
        } else if id == sv::BOTH_REPLY_ID {
            assert!(r == Err(Echo::H(12, gas, 1, ok as u64)));
        } else if id == sv::ONLY_ERR_REPLY_ID {
            if ok { assert!(r.is_ok()); } else { assert!(r == Err(Echo::Std)); }
        } else {
            assert!(false);
        }
    }

    #[kani::proof]
    #[kani::unwind(4)]
    #[kani::stub(alloc::fmt::format, fmt_stub)]
    fn reply_routes_unknown() {
        let mut s = S; let a = A; let q = Q;
        let deps = DepsMut { storage: &mut s, api: &a, querier: QuerierWrapper::<Empty>::new(&q) };
        let id: u64 = kani::any();
        kani::assume(id >= 3);
        let r = sv::dispatch_reply(deps, env(1), mk_reply(id, 5, kani::any(), false), Fix::new());
        assert!(r == Err(Echo::Std));
    }

    #[derive(Clone, Debug, PartialEq)]
    pub struct MyC {}

    fn any_reply_on() -> ReplyOn {
        match kani::any::<u8>() % 4 { 0 => ReplyOn::Always, 1 => ReplyOn::Error, 2 => ReplyOn::Success, _ => ReplyOn::Never }
    }

    #[kani::proof]
    #[kani::unwind(4)]
    #[kani::stub(alloc::fmt::format, fmt_stub)]
    fn into_msg_preserves() {
        use sylvia::into_response::IntoMsg;
        let k: u8 = kani::any();
        let msg: CosmosMsg<Empty> = match k % 3 {
            0 => CosmosMsg::Bank(BankMsg::Burn { amount: vec![] }),
            1 => CosmosMsg::Wasm(WasmMsg::ClearAdmin { contract_addr: String::new() }),
            _ => CosmosMsg::Custom(Empty {}),
        };
        let id: u64 = kani::any(); let gl: Option<u64> = kani::any(); let ro = any_reply_on(); let p: u8 = kani::any();
        let s = SubMsg { id, msg, gas_limit: gl, reply_on: ro.clone(), payload: Binary::new(vec![p]) };
        let r: Result<SubMsg<MyC>, _> = s.into_msg();
        if k % 3 == 2 { assert!(r.is_err()); } else {
            let o = r.unwrap();
            assert!(o.id == id && o.gas_limit == gl && o.reply_on == ro);
            assert!(o.payload.as_slice() == [p]);
            match o.msg {
                CosmosMsg::Bank(BankMsg::Burn { .. }) => assert!(k % 3 == 0),
                CosmosMsg::Wasm(WasmMsg::ClearAdmin { .. }) => assert!(k % 3 == 1),
                _ => assert!(false),
            }
        }
    }

    #[kani::proof]
    #[kani::unwind(4)]
    #[kani::stub(alloc::fmt::format, fmt_stub)]
    fn into_response_preserves() {
        use sylvia::into_response::IntoResponse;
        let n: u8 = kani::any(); kani::assume(n <= 2);
        let custom_at: u8 = kani::any();
        let mut resp = Response::<Empty>::new();
        let id0: u64 = kani::any(); let id1: u64 = kani::any();
        if n >= 1 { resp = resp.add_submessage(SubMsg { id: id0, msg: if custom_at == 0 { CosmosMsg::Custom(Empty{}) } else { CosmosMsg::Bank(BankMsg::Burn { amount: vec![] }) }, gas_limit: None, reply_on: ReplyOn::Never, payload: Binary::default() }); }
        if n >= 2 { resp = resp.add_submessage(SubMsg { id: id1, msg: if custom_at == 1 { CosmosMsg::Custom(Empty{}) } else { CosmosMsg::Bank(BankMsg::Burn { amount: vec![] }) }, gas_limit: None, reply_on: ReplyOn::Never, payload: Binary::default() }); }
        let with_data: bool = kani::any(); let d: u8 = kani::any();
        if with_data { resp = resp.set_data(Binary::new(vec![d])); }
        let with_attr: bool = kani::any();
        if with_attr { resp = resp.add_attribute("k", "v"); }
        let r: Result<Response<MyC>, _> = resp.into_response();
        if (custom_at as usize) < n as usize { assert!(r.is_err()); } else {
            let o = r.unwrap();
            assert!(o.messages.len() == n as usize);
            if n >= 1 { assert!(o.messages[0].id == id0); }
            if n >= 2 { assert!(o.messages[1].id == id1); }
            assert!(o.data.is_some() == with_data);
            if with_data { assert!(o.data.unwrap().as_slice() == [d]); }
            assert!(o.attributes.len() == with_attr as usize);
            assert!(o.events.is_empty());
        }
    }

    #[kani::proof]
    #[kani::unwind(24)]
    fn json_shape_exec() {
        let x: u8 = kani::any(); kani::assume(x < 10);
        let m = sv::ExecMsg::First { a: x as u64, b: 7 };
        let v = cosmwasm_std::to_json_vec(&m).unwrap();
        let mut exp = b"{\"first\":{\"a\":0,\"b\":7}}".to_vec();
        exp[14] = b'0' + x;
        assert!(v == exp);
    }

    #[kani::proof]
    #[kani::unwind(24)]
    fn remote_json() {
        use sylvia::types::Remote;
        let c: u8 = kani::any(); kani::assume(c.is_ascii_lowercase());
        let addr = Addr::unchecked(String::from_utf8(vec![c]).unwrap());
        let r: Remote<'_, Fix> = Remote::new(addr);
        let v = cosmwasm_std::to_json_vec(&r).unwrap();
        let mut exp = b"{\"addr\":\"a\"}".to_vec();
        exp[9] = c;
        assert!(v == exp);
    }


    fn bt_stub() -> std::backtrace::Backtrace { std::backtrace::Backtrace::disabled() }

    #[kani::proof]
    #[kani::unwind(4)]
    fn stderr_plain() {
        let e = StdError::generic_err("x");
        assert!(matches!(e, StdError::GenericErr { .. }));
    }

    #[kani::proof]
    #[kani::unwind(4)]
    #[kani::stub(std::backtrace::Backtrace::capture, bt_stub)]
    fn stderr_stubbed() {
        let e = StdError::generic_err("x");
        assert!(matches!(e, StdError::GenericErr { .. }));
    }

    #[kani::proof]
    #[kani::unwind(4)]
    #[kani::stub(alloc::fmt::format, fmt_stub)]
    #[kani::stub(std::backtrace::Backtrace::capture, bt_stub)]
    fn into_msg_preserves2() {
        use sylvia::into_response::IntoMsg;
        let k: u8 = kani::any();
        let msg: CosmosMsg<Empty> = match k % 3 {
            0 => CosmosMsg::Bank(BankMsg::Burn { amount: vec![] }),
            1 => CosmosMsg::Wasm(WasmMsg::ClearAdmin { contract_addr: String::new() }),
            _ => CosmosMsg::Custom(Empty {}),
        };
        let id: u64 = kani::any(); let gl: Option<u64> = kani::any(); let ro = any_reply_on(); let p: u8 = kani::any();
        let s = SubMsg { id, msg, gas_limit: gl, reply_on: ro.clone(), payload: Binary::new(vec![p]) };
        let r: Result<SubMsg<MyC>, _> = s.into_msg();
        if k % 3 == 2 { assert!(r.is_err()); } else {
            let o = r.unwrap();
            assert!(o.id == id && o.gas_limit == gl && o.reply_on == ro);
            assert!(o.payload.as_slice() == [p]);
            match o.msg {
                CosmosMsg::Bank(BankMsg::Burn { .. }) => assert!(k % 3 == 0),
                CosmosMsg::Wasm(WasmMsg::ClearAdmin { .. }) => assert!(k % 3 == 1),
                _ => assert!(false),
            }
        }
    }

    #[kani::proof]
    #[kani::unwind(4)]
    #[kani::stub(alloc::fmt::format, fmt_stub)]
    #[kani::stub(std::backtrace::Backtrace::capture, bt_stub)]
    fn reply_routes_known2() {
        let mut s = S; let a = A; let q = Q;
        let deps = DepsMut { storage: &mut s, api: &a, querier: QuerierWrapper::<Empty>::new(&q) };
        let id: u64 = kani::any();
        kani::assume(id < 3);
        let gas: u64 = kani::any();
        let ok: bool = kani::any();
        let has_data: bool = kani::any();
        let r = sv::dispatch_reply(deps, env(1), mk_reply(id, gas, ok, has_data), Fix::new());
        if id == sv::ON_OK_REPLY_ID {
            if ok { assert!(r == Err(Echo::H(10, gas, 1, if has_data {2} else {99}))); }
            else { assert!(r == Err(Echo::H(11, gas, 1, 1))); }
        } else if id == sv::BOTH_REPLY_ID {
            assert!(r == Err(Echo::H(12, gas, 1, ok as u64)));
        } else if id == sv::ONLY_ERR_REPLY_ID {
            if ok { assert!(r.is_ok()); } else { assert!(r == Err(Echo::Std)); }
        } else {
            assert!(false);
        }
    }


    #[kani::proof]
    #[kani::unwind(4)]
    #[kani::stub(alloc::fmt::format, fmt_stub)]
    #[kani::stub(std::backtrace::Backtrace::capture, bt_stub)]
    fn into_msg_bank() {
        use sylvia::into_response::IntoMsg;
        let id: u64 = kani::any(); let gl: Option<u64> = kani::any(); let p: u8 = kani::any();
        let s = SubMsg { id, msg: CosmosMsg::Bank(BankMsg::Burn { amount: vec![] }), gas_limit: gl, reply_on: ReplyOn::Error, payload: Binary::new(vec![p]) };
        let r: Result<SubMsg<MyC>, _> = s.into_msg();
        match r {
            Ok(o) => {
                assert!(o.id == id && o.gas_limit == gl);
                assert!(matches!(o.reply_on, ReplyOn::Error));
                assert!(o.payload.as_slice() == [p]);
                assert!(matches!(o.msg, CosmosMsg::Bank(BankMsg::Burn { .. })));
            }
            Err(_) => assert!(false),
        }
    }

    #[kani::proof]
    #[kani::unwind(4)]
    #[kani::stub(alloc::fmt::format, fmt_stub)]
    #[kani::stub(std::backtrace::Backtrace::capture, bt_stub)]
    fn into_msg_custom() {
        use sylvia::into_response::IntoMsg;
        let s = SubMsg { id: kani::any(), msg: CosmosMsg::Custom(Empty {}), gas_limit: kani::any(), reply_on: ReplyOn::Error, payload: Binary::default() };
        let r: Result<SubMsg<MyC>, _> = s.into_msg();
        assert!(r.is_err());
    }

    #[kani::proof]
    #[kani::unwind(24)]
    #[kani::stub(alloc::fmt::format, fmt_stub)]
    #[kani::stub(std::backtrace::Backtrace::capture, bt_stub)]
    fn remote_json2() {
        use sylvia::types::Remote;
        let c: u8 = kani::any(); kani::assume(c.is_ascii_lowercase());
        let addr = Addr::unchecked(unsafe { String::from_utf8_unchecked(vec![c]) });
        let r: Remote<'_, Fix> = Remote::new(addr);
        let v = cosmwasm_std::to_json_vec(&r).unwrap();
        assert!(v.len() == 12);
        assert!(v[9] == c);
        assert!(&v[..9] == b"{\"addr\":\"");
    }

    #[kani::proof]
    #[kani::unwind(4)]
    #[kani::stub(alloc::fmt::format, fmt_stub)]
    #[kani::stub(std::backtrace::Backtrace::capture, bt_stub)]
    fn into_response_one() {
        use sylvia::into_response::IntoResponse;
        let id0: u64 = kani::any();
        let d: u8 = kani::any();
        let resp = Response::<Empty>::new()
            .add_submessage(SubMsg { id: id0, msg: CosmosMsg::Bank(BankMsg::Burn { amount: vec![] }), gas_limit: None, reply_on: ReplyOn::Never, payload: Binary::default() })
            .set_data(Binary::new(vec![d]));
        let r: Result<Response<MyC>, _> = resp.into_response();
        match r {
            Ok(o) => {
                assert!(o.messages.len() == 1);
                assert!(o.messages[0].id == id0);
                assert!(o.data.unwrap().as_slice() == [d]);
                assert!(o.attributes.is_empty() && o.events.is_empty());
            }
            Err(_) => assert!(false),
        }
    }


    #[kani::proof]
    #[kani::unwind(24)]
    #[kani::stub(alloc::fmt::format, fmt_stub)]
    #[kani::stub(std::backtrace::Backtrace::capture, bt_stub)]
    fn executor_generated() {
        use sylvia::types::Remote;
        use sv::Executor;
        let x: u8 = kani::any(); kani::assume(x < 10);
        let addr = Addr::unchecked("c");
        let r: Remote<'_, Fix> = Remote::new(addr);
        let has_funds: bool = kani::any();
        let funds = if has_funds { vec![cosmwasm_std::Coin::new(5u128, "u")] } else { vec![] };
        let m = r.executor().with_funds(funds).first(x as u64, 7).unwrap().build();
        match m {
            WasmMsg::Execute { contract_addr, msg, funds } => {
                assert!(contract_addr == "c");
                assert!(funds.len() == has_funds as usize);
                let mut exp = b"{\"first\":{\"a\":0,\"b\":7}}".to_vec();
                exp[14] = b'0' + x;
                assert!(msg.as_slice() == &exp[..]);
            }
            _ => assert!(false),
        }
    }

    #[kani::proof]
    #[kani::unwind(4)]
    fn ctx_from() {
        use sylvia::ctx::{ExecCtx, ReplyCtx};
        let mut s = S; let a = A; let q = Q;
        let sp: *const S = &s;
        let deps = DepsMut { storage: &mut s, api: &a, querier: QuerierWrapper::<Empty>::new(&q) };
        let h: u64 = kani::any();
        let g: u64 = kani::any();
        let c: ReplyCtx = (deps, env(h), g, vec![], vec![]).into();
        assert!(c.gas_used == g && c.env.block.height == h && c.events.is_empty() && c.msg_responses.is_empty());
        assert!(std::ptr::eq(c.deps.storage as *const dyn Storage as *const S, sp));
    }

    #[kani::proof]
    #[kani::unwind(24)]
    #[kani::stub(alloc::fmt::format, fmt_stub)]
    fn wrapper_from_json_concrete() {
        let r: Result<sv::ContractExecMsg, _> = cosmwasm_std::from_json(b"{\"first\":{\"a\":1,\"b\":2}}");
        assert!(r.is_ok());
    }

    #[kani::proof]
    #[kani::unwind(4)]
    fn submsg_builder() {
        use sv::SubMsgMethods;
        let id0: u64 = kani::any();
        let gl: Option<u64> = kani::any();
        let base: SubMsg<Empty> = SubMsg { id: id0, msg: CosmosMsg::Bank(BankMsg::Burn { amount: vec![] }), payload: Binary::default(), gas_limit: gl, reply_on: ReplyOn::Never };
        let which: u8 = kani::any();
        let pl = Binary::new(vec![kani::any::<u8>()]);
        let pl0 = pl.clone();
        let (out, eid, eon) = match which % 3 {
            0 => (base.on_ok(pl), sv::ON_OK_REPLY_ID, ReplyOn::Always),
            1 => (base.both(pl), sv::BOTH_REPLY_ID, ReplyOn::Always),
            _ => (base.only_err(pl), sv::ONLY_ERR_REPLY_ID, ReplyOn::Error),
        };
        let out = out.unwrap();
        assert!(out.id == eid);
        assert!(out.reply_on == eon);
        assert!(out.gas_limit == gl);
        assert!(out.payload == pl0);
        assert!(matches!(out.msg, CosmosMsg::Bank(BankMsg::Burn { .. })));
        assert!(sv::ON_OK_REPLY_ID != sv::BOTH_REPLY_ID && sv::BOTH_REPLY_ID != sv::ONLY_ERR_REPLY_ID && sv::ON_OK_REPLY_ID != sv::ONLY_ERR_REPLY_ID);
    }

    #[kani::proof]
    #[kani::unwind(22)]
    fn query_dispatch() {
        let s = S; let a = A; let q = Q;
        let deps = Deps { storage: &s, api: &a, querier: QuerierWrapper::<Empty>::new(&q) };
        let x: u8 = kani::any();
        let r = sv::QueryMsg::Q { a: x as u64 }.dispatch(&Fix::new(), (deps, env(1)));
        let b = r.unwrap();
        kani::assume(x < 10);
        assert!(b.as_slice() == [b'0' + x]);
    }

    #[kani::proof]
    #[kani::unwind(4)]
    fn executor_builder() {
        use sylvia::types::{ExecutorBuilder, ReadyExecutorBuilderState, Remote};
        let c: u8 = kani::any();
        kani::assume(c.is_ascii_lowercase());
        let addr = String::from_utf8(vec![c]).unwrap();
        let m: u8 = kani::any();
        let b = ExecutorBuilder::<ReadyExecutorBuilderState>::new(addr.clone(), vec![], Binary::new(vec![m]));
        match b.build() {
            WasmMsg::Execute { contract_addr, msg, funds } => {
                assert!(contract_addr == addr);
                assert!(msg.as_slice() == [m]);
                assert!(funds.is_empty());
            }
            _ => assert!(false),
        }
    }

    #[kani::proof]
    #[kani::unwind(4)]
    fn instantiate_builder() {
        use sylvia::builder::instantiate::InstantiateBuilder;
        let code: u64 = kani::any();
        let m: u8 = kani::any();
        let with_label: bool = kani::any();
        let mut b = InstantiateBuilder::new(Binary::new(vec![m]), code);
        if with_label { b = b.with_label("L"); }
        match b.build() {
            WasmMsg::Instantiate { admin, code_id, msg, funds, label } => {
                assert!(admin.is_none());
                assert!(code_id == code);
                assert!(msg.as_slice() == [m]);
                assert!(funds.is_empty());
                assert!(label == if with_label { "L" } else { "" });
            }
            _ => assert!(false),
        }
    }
}
