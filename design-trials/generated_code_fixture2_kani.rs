use cosmwasm_std::{Response, StdError};
use sylvia::ctx::{ExecCtx, InstantiateCtx, QueryCtx, SudoCtx};

#[derive(Debug, PartialEq)]
pub enum Echo { Std, H(u8, u64, u64, u64) }
impl From<StdError> for Echo { fn from(_: StdError) -> Self { Echo::Std } }

pub mod iface {
    use super::*;
    #[sylvia::interface]
    #[sv::custom(msg=cosmwasm_std::Empty, query=cosmwasm_std::Empty)]
    pub trait Iface {
        type Error: From<StdError>;
        #[sv::msg(exec)]
        fn i_exec(&self, ctx: ExecCtx, a: u64) -> Result<Response, Self::Error>;
        #[sv::msg(sudo)]
        fn i_sudo(&self, ctx: SudoCtx, a: u64) -> Result<Response, Self::Error>;
        #[sv::msg(query)]
        fn i_query(&self, ctx: QueryCtx, a: u64) -> Result<u64, Self::Error>;
    }
}

pub struct Fix;

#[sylvia::entry_points]
#[sylvia::contract]
#[sv::error(Echo)]
#[sv::messages(iface)]
impl Fix {
    pub const fn new() -> Self { Fix }
    #[sv::msg(instantiate)]
    fn instantiate(&self, ctx: InstantiateCtx, a: u64) -> Result<Response, Echo> { Err(Echo::H(0, a, ctx.env.block.height, 0)) }
    #[sv::msg(exec)]
    fn c_exec(&self, ctx: ExecCtx, a: u64) -> Result<Response, Echo> { Err(Echo::H(1, a, 0, ctx.env.block.height)) }
    #[sv::msg(exec)]
    fn step2(&self, _ctx: ExecCtx, amount: u64, who: u64) -> Result<Response, Echo> { Err(Echo::H(2, amount, who, 0)) }
}

impl iface::Iface for Fix {
    type Error = Echo;
    fn i_exec(&self, ctx: ExecCtx, a: u64) -> Result<Response, Echo> { Err(Echo::H(21, a, 0, ctx.env.block.height)) }
    fn i_sudo(&self, _ctx: SudoCtx, a: u64) -> Result<Response, Echo> { Err(Echo::H(22, a, 0, 0)) }
    fn i_query(&self, _ctx: QueryCtx, a: u64) -> Result<u64, Echo> { Err(Echo::H(23, a, 0, 0)) }
}

pub mod generic {
    use super::*;
    use serde::{Serialize, de::DeserializeOwned};
    use std::marker::PhantomData;
    pub struct G<A, B, X>(PhantomData<(A, B, X)>);

    #[sylvia::contract]
    #[sv::error(Echo)]
    impl<A, B, X> G<A, B, X>
    where
        A: Serialize + DeserializeOwned + std::fmt::Debug + Clone + PartialEq + schemars::JsonSchema + Into<u64> + 'static,
        B: Serialize + DeserializeOwned + std::fmt::Debug + Clone + PartialEq + schemars::JsonSchema + 'static,
        X: 'static,
    {
        pub const fn new() -> Self { G(PhantomData) }
        #[sv::msg(instantiate)]
        fn instantiate(&self, _ctx: InstantiateCtx) -> Result<Response, Echo> { Err(Echo::H(30, 0, 0, 0)) }
        #[sv::msg(exec)]
        fn g_exec(&self, _ctx: ExecCtx, a: A, n: u64) -> Result<Response, Echo> { Err(Echo::H(31, a.into(), n, 0)) }
        #[sv::msg(sudo)]
        fn g_sudo(&self, _ctx: SudoCtx, b: Vec<Option<B>>) -> Result<Response, Echo> { Err(Echo::H(32, b.len() as u64, 0, 0)) }
    }
}


pub mod rec {
    //! Recording serializer: captures the serde data-model shape of an enum struct-variant.
    use serde::ser::{self, Serialize, Impossible};
    #[derive(Debug)]
    pub struct E;
    impl std::fmt::Display for E { fn fmt(&self, _f: &mut std::fmt::Formatter<'_>) -> std::fmt::Result { Ok(()) } }
    impl std::error::Error for E {}
    impl ser::Error for E { fn custom<T: std::fmt::Display>(_m: T) -> Self { E } }

    #[derive(Default, Clone, Copy)]
    pub struct Shape { pub sname: &'static str, pub sptr: usize, pub slen: usize, pub variant: &'static str, pub nfields: usize, pub f0: &'static str, pub f1: &'static str, pub v0: u64, pub v1: u64 }

    pub struct Rec;
    pub struct SV { shape: Shape, i: usize }
    pub struct U64Only;

    macro_rules! no { ($($m:ident($t:ty)),*) => { $(fn $m(self, _v: $t) -> Result<Self::Ok, E> { Err(E) })* } }

    impl ser::Serializer for U64Only {
        type Ok = u64; type Error = E;
        type SerializeSeq = Impossible<u64, E>; type SerializeTuple = Impossible<u64, E>; type SerializeTupleStruct = Impossible<u64, E>;
        type SerializeTupleVariant = Impossible<u64, E>; type SerializeMap = Impossible<u64, E>; type SerializeStruct = Impossible<u64, E>; type SerializeStructVariant = Impossible<u64, E>;
        fn serialize_u64(self, v: u64) -> Result<u64, E> { Ok(v) }
        no!(serialize_bool(bool), serialize_i8(i8), serialize_i16(i16), serialize_i32(i32), serialize_i64(i64), serialize_u8(u8), serialize_u16(u16), serialize_u32(u32), serialize_f32(f32), serialize_f64(f64), serialize_char(char), serialize_str(&str), serialize_bytes(&[u8]));
        fn serialize_none(self) -> Result<u64, E> { Err(E) }
        fn serialize_some<T: ?Sized + Serialize>(self, _v: &T) -> Result<u64, E> { Err(E) }
        fn serialize_unit(self) -> Result<u64, E> { Err(E) }
        fn serialize_unit_struct(self, _n: &'static str) -> Result<u64, E> { Err(E) }
        fn serialize_unit_variant(self, _n: &'static str, _i: u32, _v: &'static str) -> Result<u64, E> { Err(E) }
        fn serialize_newtype_struct<T: ?Sized + Serialize>(self, _n: &'static str, _v: &T) -> Result<u64, E> { Err(E) }
        fn serialize_newtype_variant<T: ?Sized + Serialize>(self, _n: &'static str, _i: u32, _var: &'static str, _v: &T) -> Result<u64, E> { Err(E) }
        fn serialize_seq(self, _l: Option<usize>) -> Result<Self::SerializeSeq, E> { Err(E) }
        fn serialize_tuple(self, _l: usize) -> Result<Self::SerializeTuple, E> { Err(E) }
        fn serialize_tuple_struct(self, _n: &'static str, _l: usize) -> Result<Self::SerializeTupleStruct, E> { Err(E) }
        fn serialize_tuple_variant(self, _n: &'static str, _i: u32, _v: &'static str, _l: usize) -> Result<Self::SerializeTupleVariant, E> { Err(E) }
        fn serialize_map(self, _l: Option<usize>) -> Result<Self::SerializeMap, E> { Err(E) }
        fn serialize_struct(self, _n: &'static str, _l: usize) -> Result<Self::SerializeStruct, E> { Err(E) }
        fn serialize_struct_variant(self, _n: &'static str, _i: u32, _v: &'static str, _l: usize) -> Result<Self::SerializeStructVariant, E> { Err(E) }
    }

    impl ser::Serializer for Rec {
        type Ok = Shape; type Error = E;
        type SerializeSeq = Impossible<Shape, E>; type SerializeTuple = Impossible<Shape, E>; type SerializeTupleStruct = Impossible<Shape, E>;
        type SerializeTupleVariant = Impossible<Shape, E>; type SerializeMap = Impossible<Shape, E>; type SerializeStruct = SV; type SerializeStructVariant = SV;
        no!(serialize_bool(bool), serialize_i8(i8), serialize_i16(i16), serialize_i32(i32), serialize_i64(i64), serialize_u8(u8), serialize_u16(u16), serialize_u32(u32), serialize_u64(u64), serialize_f32(f32), serialize_f64(f64), serialize_char(char), serialize_str(&str), serialize_bytes(&[u8]));
        fn serialize_none(self) -> Result<Shape, E> { Err(E) }
        fn serialize_some<T: ?Sized + Serialize>(self, _v: &T) -> Result<Shape, E> { Err(E) }
        fn serialize_unit(self) -> Result<Shape, E> { Err(E) }
        fn serialize_unit_struct(self, _n: &'static str) -> Result<Shape, E> { Err(E) }
        fn serialize_unit_variant(self, _n: &'static str, _i: u32, _v: &'static str) -> Result<Shape, E> { Err(E) }
        fn serialize_newtype_struct<T: ?Sized + Serialize>(self, _n: &'static str, _v: &T) -> Result<Shape, E> { Err(E) }
        fn serialize_newtype_variant<T: ?Sized + Serialize>(self, _n: &'static str, _i: u32, _var: &'static str, v: &T) -> Result<Shape, E> { v.serialize(Rec) }
        fn serialize_seq(self, _l: Option<usize>) -> Result<Self::SerializeSeq, E> { Err(E) }
        fn serialize_tuple(self, _l: usize) -> Result<Self::SerializeTuple, E> { Err(E) }
        fn serialize_tuple_struct(self, _n: &'static str, _l: usize) -> Result<Self::SerializeTupleStruct, E> { Err(E) }
        fn serialize_tuple_variant(self, _n: &'static str, _i: u32, _v: &'static str, _l: usize) -> Result<Self::SerializeTupleVariant, E> { Err(E) }
        fn serialize_map(self, _l: Option<usize>) -> Result<Self::SerializeMap, E> { Err(E) }
        fn serialize_struct(self, n: &'static str, l: usize) -> Result<Self::SerializeStruct, E> { Ok(SV { shape: Shape { sname: n, nfields: l, ..Default::default() }, i: 0 }) }
        fn serialize_struct_variant(self, _n: &'static str, _i: u32, v: &'static str, l: usize) -> Result<SV, E> {
            Ok(SV { shape: Shape { variant: v, nfields: l, ..Default::default() }, i: 0 })
        }
    }
    pub struct StrOnly;
    impl ser::Serializer for StrOnly {
        type Ok = (usize, usize); type Error = E;
        type SerializeSeq = Impossible<(usize, usize), E>; type SerializeTuple = Impossible<(usize, usize), E>; type SerializeTupleStruct = Impossible<(usize, usize), E>;
        type SerializeTupleVariant = Impossible<(usize, usize), E>; type SerializeMap = Impossible<(usize, usize), E>; type SerializeStruct = Impossible<(usize, usize), E>; type SerializeStructVariant = Impossible<(usize, usize), E>;
        fn serialize_str(self, v: &str) -> Result<(usize, usize), E> { Ok((v.as_ptr() as usize, v.len())) }
        no!(serialize_bool(bool), serialize_i8(i8), serialize_i16(i16), serialize_i32(i32), serialize_i64(i64), serialize_u8(u8), serialize_u16(u16), serialize_u32(u32), serialize_u64(u64), serialize_f32(f32), serialize_f64(f64), serialize_char(char), serialize_bytes(&[u8]));
        fn serialize_none(self) -> Result<Self::Ok, E> { Err(E) }
        fn serialize_some<T: ?Sized + Serialize>(self, _v: &T) -> Result<Self::Ok, E> { Err(E) }
        fn serialize_unit(self) -> Result<Self::Ok, E> { Err(E) }
        fn serialize_unit_struct(self, _n: &'static str) -> Result<Self::Ok, E> { Err(E) }
        fn serialize_unit_variant(self, _n: &'static str, _i: u32, _v: &'static str) -> Result<Self::Ok, E> { Err(E) }
        fn serialize_newtype_struct<T: ?Sized + Serialize>(self, _n: &'static str, v: &T) -> Result<Self::Ok, E> { v.serialize(StrOnly) }
        fn serialize_newtype_variant<T: ?Sized + Serialize>(self, _n: &'static str, _i: u32, _var: &'static str, _v: &T) -> Result<Self::Ok, E> { Err(E) }
        fn serialize_seq(self, _l: Option<usize>) -> Result<Self::SerializeSeq, E> { Err(E) }
        fn serialize_tuple(self, _l: usize) -> Result<Self::SerializeTuple, E> { Err(E) }
        fn serialize_tuple_struct(self, _n: &'static str, _l: usize) -> Result<Self::SerializeTupleStruct, E> { Err(E) }
        fn serialize_tuple_variant(self, _n: &'static str, _i: u32, _v: &'static str, _l: usize) -> Result<Self::SerializeTupleVariant, E> { Err(E) }
        fn serialize_map(self, _l: Option<usize>) -> Result<Self::SerializeMap, E> { Err(E) }
        fn serialize_struct(self, _n: &'static str, _l: usize) -> Result<Self::SerializeStruct, E> { Err(E) }
        fn serialize_struct_variant(self, _n: &'static str, _i: u32, _v: &'static str, _l: usize) -> Result<Self::SerializeStructVariant, E> { Err(E) }
    }
    impl ser::SerializeStruct for SV {
        type Ok = Shape; type Error = E;
        fn serialize_field<T: ?Sized + Serialize>(&mut self, key: &'static str, value: &T) -> Result<(), E> {
            let (p, l) = value.serialize(StrOnly)?;
            self.shape.f0 = key; self.shape.sptr = p; self.shape.slen = l;
            self.i += 1;
            Ok(())
        }
        fn skip_field(&mut self, _key: &'static str) -> Result<(), E> { Ok(()) }
        fn end(self) -> Result<Shape, E> { if self.i == 1 { Ok(self.shape) } else { Err(E) } }
    }
    impl ser::SerializeStructVariant for SV {
        type Ok = Shape; type Error = E;
        fn serialize_field<T: ?Sized + Serialize>(&mut self, key: &'static str, value: &T) -> Result<(), E> {
            let v = value.serialize(U64Only)?;
            if self.i == 0 { self.shape.f0 = key; self.shape.v0 = v; } else { self.shape.f1 = key; self.shape.v1 = v; }
            self.i += 1;
            Ok(())
        }
        fn end(self) -> Result<Shape, E> { Ok(self.shape) }
    }
}

pub mod script {
    //! Scripted self-describing deserializer: one enum struct-variant `{ <key>: { "a": <u64> } }`.
    use serde::de::{self, Visitor, DeserializeSeed};
    #[derive(Debug)]
    pub struct DE;
    impl std::fmt::Display for DE { fn fmt(&self, _f: &mut std::fmt::Formatter<'_>) -> std::fmt::Result { Ok(()) } }
    impl std::error::Error for DE {}
    impl de::Error for DE { fn custom<T: std::fmt::Display>(_m: T) -> Self { DE } }

    pub struct KeyD<'a>(pub &'a str);
    impl<'de, 'a> de::Deserializer<'de> for KeyD<'a> {
        type Error = DE;
        fn deserialize_any<V: Visitor<'de>>(self, v: V) -> Result<V::Value, DE> { v.visit_str(self.0) }
        serde::forward_to_deserialize_any! { bool i8 i16 i32 i64 i128 u8 u16 u32 u64 u128 f32 f64 char str string bytes byte_buf option unit unit_struct newtype_struct seq tuple tuple_struct map struct enum identifier ignored_any }
    }
    pub struct U64D(pub u64);
    impl<'de> de::Deserializer<'de> for U64D {
        type Error = DE;
        fn deserialize_any<V: Visitor<'de>>(self, v: V) -> Result<V::Value, DE> { v.visit_u64(self.0) }
        serde::forward_to_deserialize_any! { bool i8 i16 i32 i64 i128 u8 u16 u32 u64 u128 f32 f64 char str string bytes byte_buf option unit unit_struct newtype_struct seq tuple tuple_struct map struct enum identifier ignored_any }
    }
    pub struct ED<'a> { pub key: &'a str, pub field: &'a str, pub val: u64, pub nfields: u8 }
    impl<'de, 'a> de::Deserializer<'de> for ED<'a> {
        type Error = DE;
        fn deserialize_any<V: Visitor<'de>>(self, _v: V) -> Result<V::Value, DE> { Err(DE) }
        fn deserialize_enum<V: Visitor<'de>>(self, _n: &'static str, _vs: &'static [&'static str], v: V) -> Result<V::Value, DE> { v.visit_enum(self) }
        serde::forward_to_deserialize_any! { bool i8 i16 i32 i64 i128 u8 u16 u32 u64 u128 f32 f64 char str string bytes byte_buf option unit unit_struct newtype_struct seq tuple tuple_struct map struct identifier ignored_any }
    }
    impl<'de, 'a> de::EnumAccess<'de> for ED<'a> {
        type Error = DE; type Variant = VA<'a>;
        fn variant_seed<S: DeserializeSeed<'de>>(self, seed: S) -> Result<(S::Value, VA<'a>), DE> {
            let v = seed.deserialize(KeyD(self.key))?;
            Ok((v, VA { field: self.field, val: self.val, left: self.nfields }))
        }
    }
    pub struct VA<'a> { field: &'a str, val: u64, left: u8 }
    impl<'de, 'a> de::VariantAccess<'de> for VA<'a> {
        type Error = DE;
        fn unit_variant(self) -> Result<(), DE> { Err(DE) }
        fn newtype_variant_seed<T: DeserializeSeed<'de>>(self, _s: T) -> Result<T::Value, DE> { Err(DE) }
        fn tuple_variant<V: Visitor<'de>>(self, _l: usize, _v: V) -> Result<V::Value, DE> { Err(DE) }
        fn struct_variant<V: Visitor<'de>>(self, _f: &'static [&'static str], v: V) -> Result<V::Value, DE> { v.visit_map(self) }
    }
    impl<'de, 'a> de::MapAccess<'de> for VA<'a> {
        type Error = DE;
        fn next_key_seed<K: DeserializeSeed<'de>>(&mut self, seed: K) -> Result<Option<K::Value>, DE> {
            if self.left == 0 { return Ok(None); }
            self.left -= 1;
            seed.deserialize(KeyD(self.field)).map(Some)
        }
        fn next_value_seed<V: DeserializeSeed<'de>>(&mut self, seed: V) -> Result<V::Value, DE> { seed.deserialize(U64D(self.val)) }
    }

    /// `{ <key>: { <field>: <u64> } }` as nested self-describing maps (for `deserialize_any` consumers).
    pub struct MD<'a> { pub key: &'a str, pub field: &'a str, pub val: u64, pub level: u8, pub left: u8 }
    impl<'de, 'a> de::Deserializer<'de> for MD<'a> {
        type Error = DE;
        fn deserialize_any<V: Visitor<'de>>(self, v: V) -> Result<V::Value, DE> { v.visit_map(self) }
        serde::forward_to_deserialize_any! { bool i8 i16 i32 i64 i128 u8 u16 u32 u64 u128 f32 f64 char str string bytes byte_buf option unit unit_struct newtype_struct seq tuple tuple_struct map struct enum identifier ignored_any }
    }
    impl<'de, 'a> de::MapAccess<'de> for MD<'a> {
        type Error = DE;
        fn next_key_seed<K: DeserializeSeed<'de>>(&mut self, seed: K) -> Result<Option<K::Value>, DE> {
            if self.left == 0 { return Ok(None); }
            self.left -= 1;
            seed.deserialize(KeyD(if self.level == 0 { self.key } else { self.field })).map(Some)
        }
        fn next_value_seed<V: DeserializeSeed<'de>>(&mut self, seed: V) -> Result<V::Value, DE> {
            if self.level == 0 { seed.deserialize(MD { key: self.key, field: self.field, val: self.val, level: 1, left: 1 }) }
            else { seed.deserialize(U64D(self.val)) }
        }
    }
}

#[cfg(kani)]
mod proofs {
    use super::*;
    use cosmwasm_std::{Addr, DepsMut, Storage, Api, Querier, QuerierWrapper, Empty, QuerierResult, StdResult, CanonicalAddr, RecoverPubkeyError, VerificationError, Env, BlockInfo, Timestamp, ContractInfo, MessageInfo};
    use std::cell::Cell;

    struct S(Cell<u64>); struct A(u8); struct Q(u8);
    impl Storage for S {
        fn get(&self, _k: &[u8]) -> Option<Vec<u8>> { None }
        fn set(&mut self, _k: &[u8], _v: &[u8]) {}
        fn remove(&mut self, _k: &[u8]) {}
    }
    impl Api for A {
        fn addr_validate(&self, _h: &str) -> StdResult<Addr> { unimplemented!() }
        fn addr_canonicalize(&self, _h: &str) -> StdResult<CanonicalAddr> { unimplemented!() }
        fn addr_humanize(&self, _c: &CanonicalAddr) -> StdResult<Addr> { unimplemented!() }
        fn secp256k1_verify(&self, _: &[u8], _: &[u8], _: &[u8]) -> Result<bool, VerificationError> { Ok(false) }
        fn secp256k1_recover_pubkey(&self, _: &[u8], _: &[u8], _: u8) -> Result<Vec<u8>, RecoverPubkeyError> { Ok(vec![]) }
        fn ed25519_verify(&self, _: &[u8], _: &[u8], _: &[u8]) -> Result<bool, VerificationError> { Ok(false) }
        fn ed25519_batch_verify(&self, _: &[&[u8]], _: &[&[u8]], _: &[&[u8]]) -> Result<bool, VerificationError> { Ok(false) }
        fn debug(&self, _m: &str) {}
    }
    impl Querier for Q { fn raw_query(&self, _b: &[u8]) -> QuerierResult { unimplemented!() } }
    fn env(h: u64) -> Env {
        Env { block: BlockInfo { height: h, time: Timestamp::from_nanos(0), chain_id: String::new() }, transaction: None, contract: ContractInfo { address: Addr::unchecked("") } }
    }
    fn fmt_stub(_args: std::fmt::Arguments<'_>) -> String { String::new() }
    fn bt_stub() -> std::backtrace::Backtrace { std::backtrace::Backtrace::disabled() }

    #[kani::proof]
    #[kani::unwind(4)]
    #[kani::stub(alloc::fmt::format, fmt_stub)]
    #[kani::stub(std::backtrace::Backtrace::capture, bt_stub)]
    fn wrapper_routes_iface_and_contract() {
        let mut s = S(Cell::new(0)); let a = A(0); let q = Q(0);
        let deps = DepsMut { storage: &mut s, api: &a, querier: QuerierWrapper::<Empty>::new(&q) };
        let h: u64 = kani::any(); let x: u64 = kani::any(); let which: bool = kani::any();
        let info = MessageInfo { sender: Addr::unchecked(""), funds: vec![] };
        let msg: sv::ContractExecMsg = if which { iface::sv::ExecMsg::IExec { a: x }.into() } else { sv::ExecMsg::CExec { a: x }.into() };
        let r = msg.dispatch(&Fix::new(), (deps, env(h), info));
        match r { Err(Echo::H(k, a0, _, h0)) => { assert!(k == if which {21} else {1}); assert!(a0 == x && h0 == h); } _ => assert!(false) }
    }

    #[kani::proof]
    #[kani::unwind(4)]
    #[kani::stub(alloc::fmt::format, fmt_stub)]
    #[kani::stub(std::backtrace::Backtrace::capture, bt_stub)]
    fn entry_point_forwards() {
        let mut s = S(Cell::new(0)); let a = A(0); let q = Q(0);
        let deps = DepsMut { storage: &mut s, api: &a, querier: QuerierWrapper::<Empty>::new(&q) };
        let h: u64 = kani::any(); let x: u64 = kani::any();
        let info = MessageInfo { sender: Addr::unchecked(""), funds: vec![] };
        let msg: sv::ContractExecMsg = sv::ExecMsg::CExec { a: x }.into();
        let r = entry_points::execute(deps, env(h), info, msg);
        match r { Err(Echo::H(1, a0, _, h0)) => { assert!(a0 == x && h0 == h); } _ => assert!(false) }
        // type-level obligations
        let _: fn(DepsMut, Env, sv::ContractSudoMsg) -> Result<Response, Echo> = entry_points::sudo;
        let _: fn(DepsMut, Env, MessageInfo, sv::InstantiateMsg) -> Result<Response, Echo> = entry_points::instantiate;
    }


    #[kani::proof]
    #[kani::unwind(12)]
    #[kani::stub(alloc::fmt::format, fmt_stub)]
    #[kani::stub(std::backtrace::Backtrace::capture, bt_stub)]
    fn wrapper_decode_scripted() {
        use serde::de::value::{MapDeserializer, Error as DeErr};
        use serde::Deserialize;
        let x: u64 = kani::any();
        let inner = MapDeserializer::<_, DeErr>::new(std::iter::once(("a", x)));
        let outer = MapDeserializer::<_, DeErr>::new(std::iter::once(("c_exec", inner)));
        let r = sv::ContractExecMsg::deserialize(outer);
        match r {
            Ok(sv::ContractExecMsg::Fix(sv::ExecMsg::CExec { a })) => assert!(a == x),
            _ => assert!(false),
        }
    }

    #[kani::proof]
    #[kani::unwind(10)]
    fn remote_shape() {
        use serde::Serialize;
        use sylvia::types::Remote;
        let bytes: [u8; 6] = kani::any();
        let len: usize = kani::any(); kani::assume(len <= 6);
        let mut i = 0; while i < 6 { kani::assume(bytes[i] < 128); i += 1; }
        let addr = Addr::unchecked(unsafe { std::str::from_utf8_unchecked(&bytes[..len]) });
        let owned: bool = kani::any();
        let keep = addr.clone();
        let r1: Remote<'_, Fix> = if owned { Remote::new(addr) } else { Remote::borrowed(&keep) };
        let sh = r1.serialize(rec::Rec).unwrap();
        assert!(sh.sname == "Remote" && sh.nfields == 1 && sh.f0 == "addr");
        let a: &Addr = r1.as_ref();
        assert!(sh.sptr == a.as_str().as_ptr() as usize && sh.slen == a.as_str().len());
        assert!(a.as_str().len() == len);
        let r2: Remote<'_, dyn iface::Iface<Error = Echo>> = Remote::borrowed(&keep);
        let sh2 = r2.serialize(rec::Rec).unwrap();
        assert!(sh2.sname == "Remote" && sh2.nfields == 1 && sh2.f0 == "addr" && sh2.slen == len);
        use schemars::JsonSchema;
        assert!(<Remote<'static, Fix> as JsonSchema>::schema_name() == <Remote<'static, dyn iface::Iface<Error = Echo>> as JsonSchema>::schema_name());
    }

    #[kani::proof]
    #[kani::unwind(14)]
    fn derived_decode_names() {
        use serde::de::value::{MapDeserializer, Error as DeErr};
        use serde::Deserialize;
        let bytes: [u8; 8] = kani::any();
        let len: usize = kani::any(); kani::assume(len <= 8);
        let mut i = 0; while i < 8 { kani::assume(bytes[i] < 128); i += 1; }
        let key = unsafe { std::str::from_utf8_unchecked(&bytes[..len]) };
        let x: u64 = kani::any();
        let inner = MapDeserializer::<_, DeErr>::new(std::iter::once(("a", x)));
        let outer = MapDeserializer::<_, DeErr>::new(std::iter::once((key, inner)));
        let r = sv::ExecMsg::deserialize(outer);
        match r {
            Ok(sv::ExecMsg::CExec { a }) => { assert!(key == "c_exec" && a == x); }
            Ok(_) => assert!(false),
            Err(_) => assert!(key != "c_exec"),
        }
    }

    #[kani::proof]
    #[kani::unwind(10)]
    #[kani::stub(alloc::fmt::format, fmt_stub)]
    fn remote_decode_scripted() {
        use serde::de::value::{MapDeserializer, Error as DeErr};
        use serde::Deserialize;
        use sylvia::types::Remote;
        let bytes: [u8; 4] = kani::any();
        let len: usize = kani::any(); kani::assume(len <= 4);
        let mut i = 0; while i < 4 { kani::assume(bytes[i] < 128); i += 1; }
        let s = unsafe { std::str::from_utf8_unchecked(&bytes[..len]) };
        struct SD<'a>(&'a str);
        impl<'de, 'a> serde::Deserializer<'de> for SD<'a> {
            type Error = DeErr;
            fn deserialize_any<V: serde::de::Visitor<'de>>(self, v: V) -> Result<V::Value, DeErr> { v.visit_str(self.0) }
            fn deserialize_newtype_struct<V: serde::de::Visitor<'de>>(self, _n: &'static str, v: V) -> Result<V::Value, DeErr> { v.visit_newtype_struct(self) }
            serde::forward_to_deserialize_any! { bool i8 i16 i32 i64 i128 u8 u16 u32 u64 u128 f32 f64 char str string bytes byte_buf option unit unit_struct seq tuple tuple_struct map struct enum identifier ignored_any }
        }
        struct VV<'a>(&'a str);
        impl<'de, 'a> serde::de::IntoDeserializer<'de, DeErr> for VV<'a> { type Deserializer = SD<'a>; fn into_deserializer(self) -> SD<'a> { SD(self.0) } }
        let d = MapDeserializer::<_, DeErr>::new(std::iter::once(("addr", VV(s))));
        let r: Result<Remote<'static, Fix>, _> = Remote::deserialize(d);
        match r {
            Ok(rem) => { let a: &Addr = rem.as_ref(); assert!(a.as_str().len() == len); let mut j = 0; while j < len { assert!(a.as_str().as_bytes()[j] == bytes[j]); j += 1; } }
            Err(_) => assert!(false),
        }
    }

    #[kani::proof]
    #[kani::unwind(12)]
    fn derived_decode_names2() {
        use serde::Deserialize;
        let bytes: [u8; 8] = kani::any();
        let len: usize = kani::any(); kani::assume(len <= 8);
        let mut i = 0; while i < 8 { kani::assume(bytes[i] < 128); i += 1; }
        let key = unsafe { std::str::from_utf8_unchecked(&bytes[..len]) };
        let x: u64 = kani::any();
        let r = sv::ExecMsg::deserialize(script::ED { key, field: "a", val: x, nfields: 1 });
        match r {
            Ok(sv::ExecMsg::CExec { a }) => { assert!(key == "c_exec" && a == x); }
            Ok(_) => assert!(false),
            Err(_) => assert!(key != "c_exec"),
        }
    }

    #[kani::proof]
    #[kani::unwind(12)]
    #[kani::stub(alloc::fmt::format, fmt_stub)]
    #[kani::stub(std::backtrace::Backtrace::capture, bt_stub)]
    fn wrapper_decode_scripted2() {
        use serde::Deserialize;
        let x: u64 = kani::any();
        let r = sv::ContractExecMsg::deserialize(script::MD { key: "c_exec", field: "a", val: x, level: 0, left: 1 });
        match r {
            Ok(sv::ContractExecMsg::Fix(sv::ExecMsg::CExec { a })) => assert!(a == x),
            _ => assert!(false),
        }
    }

    #[kani::proof]
    #[kani::unwind(16)]
    fn wire_shape_and_list() {
        use serde::Serialize;
        let x: u64 = kani::any(); let y: u64 = kani::any();
        let m = sv::ExecMsg::Step2 { amount: x, who: y };
        let sh = m.serialize(rec::Rec).unwrap();
        assert!(sh.nfields == 2 && sh.f0 == "amount" && sh.f1 == "who" && sh.v0 == x && sh.v1 == y);
        // transparent wrapper (untagged): same shape
        let w: sv::ContractExecMsg = m.into();
        let shw = w.serialize(rec::Rec).unwrap();
        assert!(shw.variant == sh.variant && shw.v0 == x);
        // C01: wire name is the method name
        assert!(sh.variant == "step2");
        // C05/C03: published list contains the wire name
        let list = sv::execute_messages();
        let mut found = false; let mut i = 0;
        while i < list.len() { if list[i] == sh.variant { found = true; } i += 1; }
        assert!(found);
    }

    #[kani::proof]
    #[kani::unwind(4)]
    #[kani::stub(alloc::fmt::format, fmt_stub)]
    #[kani::stub(std::backtrace::Backtrace::capture, bt_stub)]
    fn generic_dispatch() {
        use generic::{G, sv as gsv};
        let mut s = S(Cell::new(0)); let a = A(0); let q = Q(0);
        let deps = DepsMut { storage: &mut s, api: &a, querier: QuerierWrapper::<Empty>::new(&q) };
        let x: u32 = kani::any(); let n: u64 = kani::any();
        let info = MessageInfo { sender: Addr::unchecked(""), funds: vec![] };
        // type-level: ExecMsg carries exactly A; SudoMsg exactly B
        let m: gsv::ExecMsg<u32> = gsv::ExecMsg::GExec { a: x, n };
        let _t: Option<gsv::SudoMsg<u8>> = None;
        let r = m.dispatch(&G::<u32, u8, ()>::new(), (deps, env(1), info));
        match r { Err(Echo::H(31, a0, n0, _)) => { assert!(a0 == x as u64 && n0 == n); } _ => assert!(false) }
    }
}
