use cosmwasm_std::{Response, StdError};
use sylvia::ctx::{ExecCtx, InstantiateCtx, QueryCtx, SudoCtx};

#[derive(Debug, PartialEq)]
pub enum Echo { Std, H(u8, u64, u64, u64) }
impl From<StdError> for Echo { fn from(_: StdError) -> Self { Echo::Std } }

pub mod iface {
    use super::*;
    #[sylvia::interface]
    #[sv::custom(msg=cosmwasm_std::Empty, query=cosmwasm_std::Empty)]
    pub trait Iface {
        type Error: From<StdError>;
        #[sv::msg(exec)]
        fn i_exec(&self, ctx: ExecCtx, a: u64) -> Result<Response, Self::Error>;
        #[sv::msg(sudo)]
        fn i_sudo(&self, ctx: SudoCtx, a: u64) -> Result<Response, Self::Error>;
        #[sv::msg(query)]
        fn i_query(&self, ctx: QueryCtx, a: u64) -> Result<u64, Self::Error>;
    }
}

pub struct Fix;

#[sylvia::entry_points]
#[sylvia::contract]
#[sv::error(Echo)]
#[sv::messages(iface)]
impl Fix {
    pub const fn new() -> Self { Fix }
    #[sv::msg(instantiate)]
    fn instantiate(&self, ctx: InstantiateCtx, a: u64) -> Result<Response, Echo> { Err(Echo::H(0, a, ctx.env.block.height, 0)) }
    #[sv::msg(exec)]
    fn c_exec(&self, ctx: ExecCtx, a: u64) -> Result<Response, Echo> { Err(Echo::H(1, a, 0, ctx.env.block.height)) }
}

impl iface::Iface for Fix {
    type Error = Echo;
    fn i_exec(&self, ctx: ExecCtx, a: u64) -> Result<Response, Echo> { Err(Echo::H(21, a, 0, ctx.env.block.height)) }
    fn i_sudo(&self, _ctx: SudoCtx, a: u64) -> Result<Response, Echo> { Err(Echo::H(22, a, 0, 0)) }
    fn i_query(&self, _ctx: QueryCtx, a: u64) -> Result<u64, Echo> { Err(Echo::H(23, a, 0, 0)) }
}

pub mod generic {
    use super::*;
    use serde::{Serialize, de::DeserializeOwned};
    use std::marker::PhantomData;
    pub struct G<A, B, X>(PhantomData<(A, B, X)>);

    #[sylvia::contract]
    #[sv::error(Echo)]
    impl<A, B, X> G<A, B, X>
    where
        A: Serialize + DeserializeOwned + std::fmt::Debug + Clone + PartialEq + schemars::JsonSchema + Into<u64> + 'static,
        B: Serialize + DeserializeOwned + std::fmt::Debug + Clone + PartialEq + schemars::JsonSchema + 'static,
        X: 'static,
    {
        pub const fn new() -> Self { G(PhantomData) }
        #[sv::msg(instantiate)]
        fn instantiate(&self, _ctx: InstantiateCtx) -> Result<Response, Echo> { Err(Echo::H(30, 0, 0, 0)) }
        #[sv::msg(exec)]
        fn g_exec(&self, _ctx: ExecCtx, a: A, n: u64) -> Result<Response, Echo> { Err(Echo::H(31, a.into(), n, 0)) }
        #[sv::msg(sudo)]
        fn g_sudo(&self, _ctx: SudoCtx, b: Vec<Option<B>>) -> Result<Response, Echo> { Err(Echo::H(32, b.len() as u64, 0, 0)) }
    }
}

#[cfg(kani)]
mod proofs {
    use super::*;
    use cosmwasm_std::{Addr, DepsMut, Storage, Api, Querier, QuerierWrapper, Empty, QuerierResult, StdResult, CanonicalAddr, RecoverPubkeyError, VerificationError, Env, BlockInfo, Timestamp, ContractInfo, MessageInfo};
    use std::cell::Cell;

    struct S(Cell<u64>); struct A(u8); struct Q(u8);
    impl Storage for S {
        fn get(&self, _k: &[u8]) -> Option<Vec<u8>> { None }
        fn set(&mut self, _k: &[u8], _v: &[u8]) {}
        fn remove(&mut self, _k: &[u8]) {}
    }
    impl Api for A {
        fn addr_validate(&self, _h: &str) -> StdResult<Addr> { unimplemented!() }
        fn addr_canonicalize(&self, _h: &str) -> StdResult<CanonicalAddr> { unimplemented!() }
        fn addr_humanize(&self, _c: &CanonicalAddr) -> StdResult<Addr> { unimplemented!() }
        fn secp256k1_verify(&self, _: &[u8], _: &[u8], _: &[u8]) -> Result<bool, VerificationError> { Ok(false) }
        fn secp256k1_recover_pubkey(&self, _: &[u8], _: &[u8], _: u8) -> Result<Vec<u8>, RecoverPubkeyError> { Ok(vec![]) }
        fn ed25519_verify(&self, _: &[u8], _: &[u8], _: &[u8]) -> Result<bool, VerificationError> { Ok(false) }
        fn ed25519_batch_verify(&self, _: &[&[u8]], _: &[&[u8]], _: &[&[u8]]) -> Result<bool, VerificationError> { Ok(false) }
        fn debug(&self, _m: &str) {}
    }
    impl Querier for Q { fn raw_query(&self, _b: &[u8]) -> QuerierResult { unimplemented!() } }
    fn env(h: u64) -> Env {
        Env { block: BlockInfo { height: h, time: Timestamp::from_nanos(0), chain_id: String::new() }, transaction: None, contract: ContractInfo { address: Addr::unchecked("") } }
    }
    fn fmt_stub(_args: std::fmt::Arguments<'_>) -> String { String::new() }
    fn bt_stub() -> std::backtrace::Backtrace { std::backtrace::Backtrace::disabled() }

    #[kani::proof]
    #[kani::unwind(4)]
    #[kani::stub(alloc::fmt::format, fmt_stub)]
    #[kani::stub(std::backtrace::Backtrace::capture, bt_stub)]
    fn wrapper_routes_iface_and_contract() {
        let mut s = S(Cell::new(0)); let a = A(0); let q = Q(0);
        let deps = DepsMut { storage: &mut s, api: &a, querier: QuerierWrapper::<Empty>::new(&q) };
        let h: u64 = kani::any(); let x: u64 = kani::any(); let which: bool = kani::any();
        let info = MessageInfo { sender: Addr::unchecked(""), funds: vec![] };
        let msg: sv::ContractExecMsg = if which { iface::sv::ExecMsg::IExec { a: x }.into() } else { sv::ExecMsg::CExec { a: x }.into() };
        let r = msg.dispatch(&Fix::new(), (deps, env(h), info));
        match r { Err(Echo::H(k, a0, _, h0)) => { assert!(k == if which {21} else {1}); assert!(a0 == x && h0 == h); } _ => assert!(false) }
    }

    #[kani::proof]
    #[kani::unwind(4)]
    #[kani::stub(alloc::fmt::format, fmt_stub)]
    #[kani::stub(std::backtrace::Backtrace::capture, bt_stub)]
    fn entry_point_forwards() {
        let mut s = S(Cell::new(0)); let a = A(0); let q = Q(0);
        let deps = DepsMut { storage: &mut s, api: &a, querier: QuerierWrapper::<Empty>::new(&q) };
        let h: u64 = kani::any(); let x: u64 = kani::any();
        let info = MessageInfo { sender: Addr::unchecked(""), funds: vec![] };
        let msg: sv::ContractExecMsg = sv::ExecMsg::CExec { a: x }.into();
        let r = entry_points::execute(deps, env(h), info, msg);
        match r { Err(Echo::H(1, a0, _, h0)) => { assert!(a0 == x && h0 == h); } _ => assert!(false) }
        // type-level obligations
        let _: fn(DepsMut, Env, sv::ContractSudoMsg) -> Result<Response, Echo> = entry_points::sudo;
        let _: fn(DepsMut, Env, MessageInfo, sv::InstantiateMsg) -> Result<Response, Echo> = entry_points::instantiate;
    }

    #[kani::proof]
    #[kani::unwind(4)]
    #[kani::stub(alloc::fmt::format, fmt_stub)]
    #[kani::stub(std::backtrace::Backtrace::capture, bt_stub)]
    fn generic_dispatch() {
        use generic::{G, sv as gsv};
        let mut s = S(Cell::new(0)); let a = A(0); let q = Q(0);
        let deps = DepsMut { storage: &mut s, api: &a, querier: QuerierWrapper::<Empty>::new(&q) };
        let x: u32 = kani::any(); let n: u64 = kani::any();
        let info = MessageInfo { sender: Addr::unchecked(""), funds: vec![] };
        // type-level: ExecMsg carries exactly A; SudoMsg exactly B
        let m: gsv::ExecMsg<u32> = gsv::ExecMsg::GExec { a: x, n };
        let _t: Option<gsv::SudoMsg<u8>> = None;
        let r = m.dispatch(&G::<u32, u8, ()>::new(), (deps, env(1), info));
        match r { Err(Echo::H(31, a0, n0, _)) => { assert!(a0 == x as u64 && n0 == n); } _ => assert!(false) }
    }
}
