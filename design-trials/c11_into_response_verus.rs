use vstd::prelude::*;
verus! {

// ---- opaque dependency types (only moved by the code under proof) ----
#[verifier::external_body] pub struct WasmMsg { _o: () }
#[verifier::external_body] pub struct BankMsg { _o: () }
#[verifier::external_body] pub struct StakingMsg { _o: () }
#[verifier::external_body] pub struct DistributionMsg { _o: () }
#[verifier::external_body] pub struct Binary { _o: () }
#[verifier::external_body] pub struct StdError { _o: () }
pub struct Empty {}
pub type StdResult<T> = core::result::Result<T, StdError>;

pub enum ReplyOn { Always, Error, Success, Never }

// verbatim from cosmwasm-std results/cosmos_msg.rs (derives/serde attrs dropped)
pub enum CosmosMsg<T> {
    Bank(BankMsg),
    Custom(T),
    Staking(StakingMsg),
    Distribution(DistributionMsg),
    Wasm(WasmMsg),
}

pub struct SubMsg<T> {
    pub id: u64,
    pub payload: Binary,
    pub msg: CosmosMsg<T>,
    pub gas_limit: Option<u64>,
    pub reply_on: ReplyOn,
}

impl StdError {
    #[verifier::external_body]
    pub fn generic_err(msg: &str) -> StdError { unimplemented!() }
}


pub open spec fn same_payload<C>(a: CosmosMsg<Empty>, b: CosmosMsg<C>) -> bool {
    match (a, b) {
        (CosmosMsg::Bank(x), CosmosMsg::Bank(y)) => x == y,
        (CosmosMsg::Wasm(x), CosmosMsg::Wasm(y)) => x == y,
        (CosmosMsg::Staking(x), CosmosMsg::Staking(y)) => x == y,
        (CosmosMsg::Distribution(x), CosmosMsg::Distribution(y)) => x == y,
        _ => false,
    }
}

impl SubMsg<Empty> {
    fn into_msg<C>(self) -> (r: StdResult<SubMsg<C>>)
        ensures
            match (self.msg, r) {
                (CosmosMsg::Custom(_), r) => r is Err,
                (m, Err(_)) => false,
                (m, Ok(o)) => o.id == self.id && o.gas_limit == self.gas_limit
                    && o.reply_on == self.reply_on && o.payload == self.payload
                    && same_payload(m, o.msg),
            },
    {
        let msg = match self.msg {
            CosmosMsg::Wasm(wasm) => CosmosMsg::Wasm(wasm),
            CosmosMsg::Bank(bank) => CosmosMsg::Bank(bank),
            CosmosMsg::Staking(staking) => CosmosMsg::Staking(staking),
            CosmosMsg::Distribution(distribution) => CosmosMsg::Distribution(distribution),
            CosmosMsg::Custom(_) => Err(StdError::generic_err(
                "Custom Empty message should not be sent",
            ))?,
        };

        Ok(SubMsg {
            msg,
            id: self.id,
            gas_limit: self.gas_limit,
            reply_on: self.reply_on,
            payload: self.payload,
        })
    }
}

#[verifier::external_body] pub struct Event { _o: () }
#[verifier::external_body] pub struct Attribute { _o: () }

// skeleton of cosmwasm_std::Response (fields verbatim, attrs dropped)
pub struct Response<T> {
    pub messages: Vec<SubMsg<T>>,
    pub attributes: Vec<Attribute>,
    pub events: Vec<Event>,
    pub data: Option<Binary>,
}

impl<T> Response<T> {
    #[verifier::external_body]
    pub fn new() -> (r: Self)
        ensures r.messages@.len() == 0, r.attributes@.len() == 0, r.events@.len() == 0, r.data is None,
    { unimplemented!() }

    #[verifier::external_body]
    pub fn add_submessages(self, msgs: Vec<SubMsg<T>>) -> (r: Self)
        ensures r.messages@ == self.messages@ + msgs@, r.attributes@ == self.attributes@, r.events@ == self.events@, r.data == self.data,
    { unimplemented!() }

    #[verifier::external_body]
    pub fn add_events(self, evs: Vec<Event>) -> (r: Self)
        ensures r.messages@ == self.messages@, r.attributes@ == self.attributes@, r.events@ == self.events@ + evs@, r.data == self.data,
    { unimplemented!() }

    #[verifier::external_body]
    pub fn add_attributes(self, attrs: Vec<Attribute>) -> (r: Self)
        ensures r.messages@ == self.messages@, r.attributes@ == self.attributes@ + attrs@, r.events@ == self.events@, r.data == self.data,
    { unimplemented!() }
}

pub open spec fn conv_ok<C>(a: SubMsg<Empty>, b: SubMsg<C>) -> bool {
    b.id == a.id && b.gas_limit == a.gas_limit && b.reply_on == a.reply_on && b.payload == a.payload && same_payload(a.msg, b.msg)
}

// trusted contract for `v.into_iter().map(f).collect::<Result<Vec<_>, _>>()`
#[verifier::external_body]
pub fn verif_try_map_collect<A, B, E, F: Fn(A) -> Result<B, E>>(v: Vec<A>, f: F) -> (r: Result<Vec<B>, E>)
    requires forall |i: int| 0 <= i < v@.len() ==> f.requires((#[trigger] v@[i],)),
    ensures match r {
        Ok(out) => out@.len() == v@.len() && forall |i: int| 0 <= i < v@.len() ==> f.ensures((v@[i],), Ok(#[trigger] out@[i])),
        Err(e) => exists |i: int| 0 <= i < v@.len() && f.ensures((#[trigger] v@[i],), Err(e)),
    }
{ unimplemented!() }

impl Response<Empty> {
    fn into_response<T>(self) -> (r: StdResult<Response<T>>)
        ensures match r {
            Ok(o) => o.messages@.len() == self.messages@.len()
                && (forall |i: int| 0 <= i < self.messages@.len() ==> conv_ok(self.messages@[i], #[trigger] o.messages@[i]))
                && o.events@ == self.events@ && o.attributes@ == self.attributes@ && o.data == self.data,
            Err(_) => exists |i: int| 0 <= i < self.messages@.len() && (#[trigger] self.messages@[i]).msg is Custom,
        },
        (forall |i: int| 0 <= i < self.messages@.len() ==> !((#[trigger] self.messages@[i]).msg is Custom)) ==> r is Ok,
    {
        let messages: Vec<_> = verif_try_map_collect(self
            .messages
            , |msg: SubMsg<Empty>| -> (r: StdResult<SubMsg<T>>)
                ensures match (msg.msg, r) {
                    (CosmosMsg::Custom(_), r) => r is Err,
                    (m, Err(_)) => false,
                    (m, Ok(o)) => conv_ok(msg, o),
                }
              { msg.into_msg() })
            ?;
        let mut resp = Response::new()
            .add_submessages(messages)
            .add_events(self.events)
            .add_attributes(self.attributes);
        resp.data = self.data;

        Ok(resp)
    }
}
}
fn main(){}
