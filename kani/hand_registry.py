"""Registry of hand-written harnesses and type-level obligations (kani/fixtures/src/hand/*.rs)."""
H = []
T = []


def reg(name, feature, props, tier, clause, engine="G", fixture="", **kw):
    d = dict(name=name, feature=feature, props=props, tier=tier, clause=clause, engine=engine, fixture=fixture)
    d.update(kw)
    H.append(d)


def treg(name, feature, props, fixture, tier="quick", **kw):
    d = dict(name=name, feature=feature, props=props, fixture=fixture, tier=tier)
    d.update(kw)
    T.append(d)


RT = "sylvia run-time crate"
reg('k_ctx_from_exec', "g_runtime", ['C02'], 'quick', 'sylvia::ctx From<tuple> (sylvia/src/ctx.rs) is the identity on every component: same storage (pointer identity), api reached, env/info/gas_used/events/msg_responses unchanged', engine="K", fixture=RT)
reg('k_ctx_from_instantiate', "g_runtime", ['C02'], 'quick', 'sylvia::ctx From<tuple> (sylvia/src/ctx.rs) is the identity on every component: same storage (pointer identity), api reached, env/info/gas_used/events/msg_responses unchanged', engine="K", fixture=RT)
reg('k_ctx_from_query', "g_runtime", ['C02'], 'quick', 'sylvia::ctx From<tuple> (sylvia/src/ctx.rs) is the identity on every component: same storage (pointer identity), api reached, env/info/gas_used/events/msg_responses unchanged', engine="K", fixture=RT)
reg('k_ctx_from_sudo_migrate', "g_runtime", ['C02'], 'quick', 'sylvia::ctx From<tuple> (sylvia/src/ctx.rs) is the identity on every component: same storage (pointer identity), api reached, env/info/gas_used/events/msg_responses unchanged', engine="K", fixture=RT)
reg('k_ctx_from_reply', "g_runtime", ['C02', 'C07'], 'quick', 'sylvia::ctx From<tuple> (sylvia/src/ctx.rs) is the identity on every component: same storage (pointer identity), api reached, env/info/gas_used/events/msg_responses unchanged', engine="K", fixture=RT)
reg('k_executor_builder', "g_runtime", ['C10'], 'quick', 'ExecutorBuilder::{new, with_funds, funds, contract} (sylvia/src/types.rs): contract = the address, funds = the given funds', engine="K", fixture=RT)
reg('k_instantiate_builder', "g_runtime", ['C10'], 'quick', 'InstantiateBuilder::{new, with_label, with_admin, with_funds, build} (sylvia/src/builder/instantiate.rs): code id, msg, admin, label (empty when unset), funds', engine="K", fixture=RT)
reg('k_instantiate_builder2', "g_runtime", ['C10'], 'quick', 'InstantiateBuilder::build2: as build plus the salt, byte for byte', engine="K", fixture=RT)
reg('k_remote_helpers', "g_runtime", ['C10'], 'quick', "Remote::{new, borrowed, as_ref, executor, update_admin, clear_admin} (sylvia/src/types.rs) address the handle's contract", engine="K", fixture=RT)
reg('k_remote_shape_contract', "g_runtime", ['C20'], 'quick', 'Remote<Contract> serialises as struct `Remote` with the single member `addr` whose str IS the address (same pointer and length), owned and borrowed; addresses <= 6 symbolic ASCII bytes', engine="K", fixture=RT)
reg('k_remote_shape_dyn', "g_runtime", ['C20'], 'quick', 'same for Remote<dyn Interface<Error=E>>', engine="K", fixture=RT)
reg('k_remote_shape_unit', "g_runtime", ['C20'], 'thorough', 'same for Remote<()>', engine="K", fixture=RT)
reg('k_remote_decode', "g_runtime", ['C20'], 'quick', 'scripted {addr: s} decodes to a handle with as_ref() == s (<= 4 symbolic bytes); a document without `addr` is rejected', engine="K", fixture=RT)
reg('k_remote_schema_name', "g_runtime", ['C20'], 'quick', 'schema_name() is `Remote` for every type parameter; Serialize + DeserializeOwned + JsonSchema hold for an unsized parameter with no impls', engine="K", fixture=RT)
reg('k_utils_disjoint_returns_n2', "g_runtime", ['C05'], 'thorough', 'BOUNDED cross-check (not proof) of R1/R2 on the unmodified assert_no_intersection: N=2, lengths <= 2, 5-string alphabet: disjoint => returns', engine="K", fixture=RT)
reg('k_utils_overlap_panics_n2', "g_runtime", ['C05'], 'thorough', 'BOUNDED cross-check (not proof): sorted lists sharing a name => the call never returns', engine="K", fixture=RT, expect_unreachable_cover=True)
reg('k_utils_disjoint_returns_n3', "g_runtime", ['C05'], 'thorough', 'BOUNDED cross-check (not proof) on the unmodified assert_no_intersection: N=3, lengths <= 2, 5-string alphabet: disjoint => returns', engine="K", fixture=RT)
reg('k_utils_overlap_panics_n3', "g_runtime", ['C05'], 'thorough', 'BOUNDED cross-check (not proof): N=3, sorted lists, first and third share a name => the call never returns', engine="K", fixture=RT, expect_unreachable_cover=True)
reg('k_konst_contracts', "g_runtime", ['C05'], 'thorough', 'BOUNDED cross-check of the assumed konst::cmp_str / konst::eq_str contracts (strings <= 2 bytes)', engine="K", fixture=RT)
reg('k_executor_builder_build', "g_runtime", ['C10'], 'quick', 'ExecutorBuilder<ReadyExecutorBuilderState>::{new, build}: WasmMsg::Execute with exactly the given contract address, funds and body', engine="K", fixture=RT)
treg('runtime.T.remote_impls_unbounded', "g_runtime", ['C20'], RT)

# ---- fx_custom (hand/custom.rs)
CU = "fx_custom"
reg('c11_fx_custom_bridged_exec_ctx', "g_custom", ["C11", "C02"], 'quick', "bridged (`: custom(msg, query)`) exec handler written for Empty sees the caller's storage, api, env.block.height and sender (observations returned in the response data, which reaches the caller through into_response); exactly that handler runs", fixture=CU)
reg('c11_fx_custom_bridged_sudo_ctx', "g_custom", ["C11", "C02"], 'quick', "bridged sudo handler sees the caller's storage and env", fixture=CU)
reg('c11_fx_custom_bridged_query_ctx', "g_custom", ["C11", "C02"], 'quick', "bridged query handler (into_empty on Deps) sees the caller's storage and env", fixture=CU)
reg('c11_fx_custom_native_exec_ctx', "g_custom", ["C11", "C02"], 'quick', "native custom-typed interface handler in the same contract", fixture=CU)
reg('c11_fx_custom_own_exec_ctx', "g_custom", ["C11", "C02"], 'quick', "the contract's own custom-typed handler in the same contract", fixture=CU)
reg('c11_fx_custom_bridged_ok_response', "g_custom", ["C11", "C02"], 'quick', 'bridged Ok path: the Empty-typed response reaches the caller through IntoResponse::into_response with its data and its fire-and-forget sub-message (id, payload, gas limit, reply trigger, wrapped message) intact and nothing added', fixture=CU)
treg("fx_custom.T.wrapper_dispatch_types", "g_custom", ["C11"], CU)
treg("fx_custom.T.entry_point_types", "g_custom", ["C11", "C06"], CU)

# ---- fx_generic (hand/generic.rs)
GE = "fx_generic"
reg("c15_fx_generic_dispatch_exec", "g_generic", ["C15", "C02"], "quick", "generic contract instantiated with concrete types: dispatch postcondition as in the non-generic case; ExecMsg named with exactly the used parameter", fixture=GE)
reg("c15_fx_generic_dispatch_other_instantiation", "g_generic", ["C15"], "thorough", "second instantiation (exec and query)", fixture=GE)
reg("c15_fx_generic_shape", "g_generic", ["C15", "C01"], "quick", "wire shape of a generic message equals the non-generic case", fixture=GE)
reg("c15_fx_generic_phantom_not_on_wire", "g_generic", ["C15", "C01"], "quick", "the helper variant carrying the type parameters is not on the wire: __phantom / _phantom / phantom / _Phantom are rejected by the generic exec, sudo and query message types", fixture=GE)
treg("fx_generic.T.accepted", "g_generic", ["C15"], GE)
for t in ["exec_msg_params_exact", "sudo_msg_params_exact", "query_msg_params_exact", "instantiate_msg_params_exact", "messages_encodable_with_only_used_params", "assoc_iface_msg_params"]:
    treg("fx_generic.T." + t, "g_generic", ["C15"], GE)

# ---- fx_attr (hand/attr.rs)
AT = "fx_attr"
reg("c17_fx_attr_renamed_variant", "g_attr", ["C17", "C01"], "quick", "sv::attr(serde(rename=..)) takes effect on that handler's variant only (recording Serializer)", fixture=AT)
reg("c17_fx_attr_default_field", "g_attr", ["C17", "C01"], "quick", "#[serde(default)] written on a handler argument is attached to the message field: the field may be absent on the wire, every other field may not (scripted Deserializer)", fixture=AT)
treg("fx_attr.T.msg_attr_lands_on_designated_kinds_only", "g_attr", ["C17"], AT, native=True)
treg("fx_attr.T.accepted", "g_attr", ["C17"], AT)
treg("fx_attr.T.msg_attr_on_fieldless_struct_messages", "g_attr", ["C17"], AT, native=True)

# ---- fx_exec (hand/exec.rs)
EX = "fx_exec"
reg("c10_fx_exec_contract_method", "g_exec", ["C10"], "quick", "generated Executor method on a contract-typed handle: WasmMsg::Execute to the handle's address, empty funds, body = canonical JSON of the same ExecMsg variant (`{\"ping\":{}}`)", fixture=EX)
reg("c10_fx_exec_interface_method", "g_exec", ["C10"], "quick", "generated Executor method on a `dyn Interface`-typed handle: body = canonical JSON of the interface ExecMsg variant", fixture=EX)

# ---- fx_alias (hand/alias.rs)
AL = "fx_alias"
reg("c14_fx_alias_routes_order_a", "g_alias", ["C14", "C03"], "quick", "two interfaces whose module paths end in the same segment (told apart by aliases): both are routable, declaration order A", fixture=AL)
reg("c14_fx_alias_routes_order_b", "g_alias", ["C14", "C03"], "quick", "same contract with the two sv::messages attributes swapped: same routing", fixture=AL)
treg("fx_alias.T.wrapper_parts_exact_in_both_orders", "g_alias", ["C14", "C03"], AL)
treg("fx_alias.T.accepted", "g_alias", ["C14"], AL)
