#!/usr/bin/env python3
"""Generates the fixture corpus and its Kani harnesses into kani/fixtures/src/gen/.

The table below is the ORACLE: expected wire names, field names, argument order and
handler numbers come from this table (i.e. from the method signatures we write),
never from what the macros emitted.  Output is deterministic.

Each harness is registered in gen/harnesses.json:
  {name, feature, props: [..], tier, clause, fixture}
"""
import json, os, sys, re

HERE = os.path.dirname(os.path.abspath(__file__))
OUT = os.environ.get("KX_OUT") or os.path.join(HERE, "fixtures", "src", "gen")
HARNESSES = []
T_OBLIGATIONS = []   # names of type-level obligations (markers inside generated files)

STUBS = "#[kani::stub(alloc::fmt::format, fmt_stub)]\n    #[kani::stub(std::backtrace::Backtrace::capture, bt_stub)]"
CTX = {"instantiate": "InstantiateCtx", "exec": "ExecCtx", "query": "QueryCtx", "sudo": "SudoCtx", "migrate": "MigrateCtx"}
KIND_MSG = {"instantiate": "InstantiateMsg", "exec": "ExecMsg", "query": "QueryMsg", "sudo": "SudoMsg", "migrate": "MigrateMsg"}
KIND_WRAP = {"exec": "ContractExecMsg", "query": "ContractQueryMsg", "sudo": "ContractSudoMsg"}
KIND_LIST = {"exec": "execute_messages", "query": "query_messages", "sudo": "sudo_messages"}
HAS_INFO = {"instantiate", "exec"}
MUT = {"instantiate", "exec", "sudo", "migrate"}


def as_u64(expr, ty):
    """the observation of an argument value as a u64 (an absent Option<u64> is u64::MAX, as in the recording Serializer)"""
    if ty.startswith("Option<"):
        return "(match %s { Some(v) => v as u64, None => u64::MAX })" % expr
    return "%s as u64" % expr


def camel(name):
    return "".join(w[:1].upper() + w[1:] for w in name.split("_") if w)


def reg(name, feature, props, tier, clause, fixture):
    HARNESSES.append(dict(name=name, feature=feature, props=props, tier=tier, clause=clause, fixture=fixture))


class M:
    """one handler method"""
    def __init__(self, kind, name, args=(), ret="err", h=None, attrs=(), argattrs=None, resp=None):
        self.kind, self.name, self.args, self.ret, self.h = kind, name, list(args), ret, h
        self.attrs = list(attrs)            # extra attributes on the method (e.g. sv::attr(..))
        self.argattrs = argattrs or {}      # arg name -> attribute text
        self.resp = resp

    def wire(self):
        return self.name


def handler_body(m, owner_kind, errty):
    """echo handler: counts the call, touches storage/api, reports args + ctx observations"""
    lines = ["self.calls.hit(%d);" % m.h]
    if m.kind in MUT:
        lines.append("ctx.deps.storage.set(b\"k\", &[%d]);" % m.h)
    else:
        lines.append("let _ = ctx.deps.storage.get(&[%d]);" % m.h)
    lines.append("ctx.deps.api.debug(\"abc\");")
    lines.append("let mut o = Obs::new(%d);" % m.h)
    for i, (a, t) in enumerate(m.args):
        lines.append("o.args[%d] = %s;" % (i, as_u64(a, t)))
    lines.append("o.height = ctx.env.block.height;")
    lines.append("o.extra = tx_marker(&ctx.env);")
    if m.kind in HAS_INFO:
        lines.append("o.sender_len = ctx.info.sender.as_str().len() as u64;")
        lines.append("o.funds = ctx.info.funds.len() as u64;")
    if m.ret == "err":
        lines.append("Err(%s::H(o))" % errty)
    elif m.ret == "err_conv":
        # handler with its own error type: dispatch must convert it into the contract error (map_err(Into::into))
        lines.append("Err(IfaceErr::H(o))")
    elif m.ret == "ok":
        # Ok path: response carrying one data byte taken from the first argument
        lines.append("Ok(Response::new().set_data(vec![%s as u8]))" % m.args[0][0])
    elif m.ret == "query_ok":
        lines.append("Ok(%s)" % m.args[0][0])
    return "\n            ".join(lines)


def ret_type(m, errty, resp="Response"):
    if m.ret == "err_conv":
        errty = "IfaceErr"
    if m.kind == "query":
        return "Result<u64, %s>" % errty
    return "Result<%s, %s>" % (resp, errty)


def emit_iface(i):
    out = []
    out.append("pub mod %s {" % i["mod"])
    out.append("    use super::*;")
    out.append("    #[sylvia::interface]")
    out.append("    #[sv::custom(msg=cosmwasm_std::Empty, query=cosmwasm_std::Empty)]")
    for a in i.get("attrs", []):
        out.append("    " + a)
    out.append("    pub trait %s {" % i["trait"])
    out.append("        type Error: From<StdError>;")
    for m in i["methods"]:
        for a in m.attrs:
            out.append("        " + a)
        out.append("        #[sv::msg(%s)]" % m.kind)
        args = "".join(", %s%s: %s" % ((m.argattrs.get(a, "") + " ") if a in m.argattrs else "", a, t) for a, t in m.args)
        out.append("        fn %s(&self, ctx: %s%s) -> %s;" % (m.name, CTX[m.kind], args, ret_type(m, "Self::Error")))
    out.append("    }")
    out.append("}")
    return "\n".join(out)


def emit_iface_impl(i, contract):
    out = []
    out.append("impl %s::%s for %s {" % (i["mod"], i["trait"], contract))
    out.append("    type Error = %s;" % i["error"])
    for m in i["methods"]:
        args = "".join(", %s: %s" % (a, t) for a, t in m.args)
        out.append("    fn %s(&self, ctx: %s%s) -> %s {" % (m.name, CTX[m.kind], args, ret_type(m, i["error"])))
        out.append("            " + handler_body(m, "iface", i["error"]))
        out.append("    }")
    out.append("}")
    return "\n".join(out)


def any_decl(args, prefix="x"):
    return "\n        ".join("let %s%d: %s = kani::any();" % (prefix, k, t) for k, (a, t) in enumerate(args))


def ctor_fields(args, prefix="x"):
    return ", ".join("%s: %s%d" % (a, prefix, k) for k, (a, t) in enumerate(args))


def dispatch_harness(fx, m, msg_expr, hname, via, expect_h, props, tier, clause, errwrap="Echo"):
    """postcondition of dispatch for one variant"""
    mut = m.kind in MUT
    deps = ("let deps = DepsMut { storage: &mut s, api: &a, querier: QuerierWrapper::<Empty>::new(&q) };" if mut else
            "let deps = Deps { storage: &s, api: &a, querier: QuerierWrapper::<Empty>::new(&q) };")
    ctx = "(deps, env(h), info(sl))" if m.kind in HAS_INFO else "(deps, env(h))"
    checks = []
    if m.ret in ("err", "err_conv"):
        checks.append("match &*r {")
        checks.append("            Err(Echo::H(o)) => {")
        checks.append("                assert!(o.h == %d);" % expect_h)
        for k, (a, t) in enumerate(m.args):
            checks.append("                assert!(o.args[%d] == %s);" % (k, as_u64("x%d" % k, t)))
        for k in range(len(m.args), 12):
            checks.append("                assert!(o.args[%d] == 0);" % k)
        checks.append("                assert!(o.height == h && o.extra == TX_INDEX as u64 + 1);")
        if m.kind in HAS_INFO:
            checks.append("                assert!(o.sender_len == sl as u64 && o.funds == 0);")
        checks.append("            }")
        checks.append("            _ => assert!(false),")
        checks.append("        }")
    elif m.ret == "ok":
        checks.append("match &*r {")
        checks.append("            Ok(resp) => {")
        checks.append("                assert!(resp.messages.is_empty() && resp.attributes.is_empty() && resp.events.is_empty());")
        checks.append("                match &resp.data { Some(d) => assert!(d.as_slice().len() == 1 && d.as_slice()[0] == x0 as u8), None => assert!(false) }")
        checks.append("            }")
        checks.append("            _ => assert!(false),")
        checks.append("        }")
    elif m.ret == "query_ok":
        # JSON encoding of the returned u64 (bounded to 2 digits to keep the decimal printer small)
        checks.append("match &*r {")
        checks.append("            Ok(bin) => {")
        checks.append("                let b = bin.as_slice();")
        checks.append("                if x0 < 10 { assert!(b.len() == 1 && b[0] == b'0' + x0 as u8); }")
        checks.append("                else { assert!(b.len() == 2 && b[0] == b'0' + (x0 / 10) as u8 && b[1] == b'0' + (x0 % 10) as u8); }")
        checks.append("            }")
        checks.append("            _ => assert!(false),")
        checks.append("        }")
    stor = "%d" % m.h if mut else "%d" % (1000 + m.h)
    pre = "kani::assume(x0 < 100);" if m.ret == "query_ok" else ""
    body = """
    #[kani::proof]
    #[kani::unwind(%(unw)d)]
    %(stubs)s
    fn %(hname)s() {
        let mut s = S(Cell::new(77)); let a = A(Cell::new(0)); let q = Q(Cell::new(0));
        let h: u64 = kani::any(); let sl: u8 = kani::any(); kani::assume(sl <= 2);
        %(anys)s
        %(pre)s
        let c = %(contract)s::new();
        %(deps)s
        let msg = %(msg)s;
        let r = core::mem::ManuallyDrop::new(msg.dispatch(&c, %(ctx)s));
        %(checks)s
        assert!(c.calls.only(%(h)d));
        assert!(s.0.get() == %(stor)s);
        assert!(a.0.get() == 4);
        kani::cover!(true, "end of harness reachable");
    }
""" % dict(unw=4, stubs=STUBS, hname=hname, anys=any_decl(m.args), pre=pre, contract=fx["contract"], deps=deps, msg=msg_expr, ctx=ctx,
           checks="\n        ".join(checks), h=m.h, stor=stor)
    reg(hname, fx["feature"], props, tier, clause, fx["mod"])
    return body


def shape_harness(fx, m, msg_path, hname, props, tier, wrapper=None, list_fn=None):
    """C01 recorder: variant = method name, fields = arg names in order, values = args; constructor = literal;
       C03(ii) wrapper transparent; C05 clause 2 / C03(i): wire name is in the published list."""
    enum = m.kind in KIND_WRAP
    lit = "%s::%s { %s }" % (msg_path, camel(m.name), ctor_fields(m.args)) if enum else "%s { %s }" % (msg_path, ctor_fields(m.args))
    lines = []
    lines.append("let m = %s;" % lit)
    lines.append("let sh = m.serialize(rec::Rec).unwrap();")
    if enum:
        lines.append("assert!(sh.kind == 2);")
        if fx.get("names_known", True):
            lines.append("assert!(sh.variant == \"%s\");" % m.wire())
    else:
        lines.append("assert!(sh.kind == 1);")
    lines.append("assert!(sh.n == %d && sh.declared_len == %d && sh.skipped == 0);" % (len(m.args), len(m.args)))
    for k, (a, t) in enumerate(m.args):
        lines.append("assert!(sh.keys[%d] == \"%s\" && sh.vals[%d] == %s);" % (k, a, k, as_u64("x%d" % k, t)))
    # constructor builds the same value as the literal
    if enum:
        ctor = "%s::%s(%s)" % (msg_path, m.name, ", ".join("x%d" % k for k in range(len(m.args))))
    else:
        ctor = "%s::new(%s)" % (msg_path, ", ".join("x%d" % k for k in range(len(m.args))))
    if fx.get("check_ctor", True):
        lines.append("let m2 = %s;" % ctor)
        lines.append("assert!(m2 == m);")
    if wrapper:
        lines.append("let w: %s = m.into();" % wrapper)
        lines.append("let shw = w.serialize(rec::Rec).unwrap();")
        lines.append("assert!(shw.kind == 2 && shw.variant == sh.variant && shw.n == sh.n);")
        for k in range(len(m.args)):
            lines.append("assert!(shw.keys[%d] == sh.keys[%d] && shw.vals[%d] == sh.vals[%d]);" % (k, k, k, k))
    if list_fn:
        lines.append("let list = %s();" % list_fn)
        lines.append("let mut found = false; let mut i = 0;")
        lines.append("while i < list.len() { if list[i] == sh.variant { found = true; } i += 1; }")
        lines.append("assert!(found);")
    body = """
    #[kani::proof]
    #[kani::unwind(34)]
    fn %s() {
        use serde::Serialize;
        %s
        %s
        kani::cover!(true, "end of harness reachable");
    }
""" % (hname, any_decl(m.args), "\n        ".join(lines))
    reg(hname, fx["feature"], props, tier, "wire shape via recording Serializer", fx["mod"])
    return body


def list_harness(fx, kind, msg_path_prefix, methods, hname, props, tier):
    """C05 clause 2: the published list is strictly sorted, has one entry per method and equals the method names"""
    names = sorted(m.wire() for m in methods)
    fn = "%s%s" % (msg_path_prefix, KIND_LIST[kind])
    lines = ["let list = %s();" % fn, "assert!(list.len() == %d);" % len(names)]
    for k, n in enumerate(names):
        if fx.get("names_known", True):
            lines.append("assert!(list[%d] == \"%s\");" % (k, n))
    lines.append("let mut i = 1; while i < list.len() { assert!(list[i - 1].as_bytes() < list[i].as_bytes()); i += 1; }")
    body = """
    #[kani::proof]
    #[kani::unwind(40)]
    fn %s() {
        %s
        kani::cover!(true, "end of harness reachable");
    }
""" % (hname, "\n        ".join(lines))
    reg(hname, fx["feature"], props, tier, "published name list is strictly sorted and equals the set of wire names (oracle: the method names in the generator table)", fx["mod"])
    return body


def decode_harness(fx, kind, msg_path, methods, m, hname, props, tier, keylen=12):
    """C01 script (a): Msg::deserialize({<own name>: {fields of m}}) is Ok(V_m{args}) with equal values."""
    enum = kind in KIND_WRAP
    fields = ", ".join("(\"%s\", script::Sv::U(%s))" % (a, as_u64("x%d" % k, t)) for k, (a, t) in enumerate(m.args))
    lines = []
    for k, (a, t) in enumerate(m.args):
        if t.startswith("Option<"):
            lines.append("kani::assume(x%d.is_some());   // the script presents a present value; an absent one is serde's default for Option" % k)
    lines.append("let fields: [(&str, script::Sv); %d] = [%s];" % (len(m.args), fields))
    if enum:
        lines.append("let r = %s::deserialize(script::ED { key: \"%s\", fields: &fields });" % (msg_path, m.wire()))
        pat = "%s::%s { %s }" % (msg_path, camel(m.name), ", ".join("%s: y%d" % (a, k) for k, (a, t) in enumerate(m.args)))
    else:
        lines.append("let r = %s::deserialize(script::MA { fields: &fields, i: 0 });" % msg_path)
        pat = "%s { %s }" % (msg_path, ", ".join("%s: y%d" % (a, k) for k, (a, t) in enumerate(m.args)))
    eqs = " && ".join(["y%d == x%d" % (k, k) for k in range(len(m.args))] or ["true"])
    lines.append("match r { Ok(%s) => assert!(%s), _ => assert!(false) }" % (pat, eqs))
    body = """
    #[kani::proof]
    #[kani::unwind(%d)]
    fn %s() {
        use serde::Deserialize;
        %s
        %s
        kani::cover!(true, "end of harness reachable");
    }
""" % (keylen + 4, hname, any_decl(m.args), "\n        ".join(lines))
    reg(hname, fx["feature"], props, tier, "own wire name + own fields decodes back to an equal message (scripted self-describing Deserializer)", fx["mod"])
    return body


def names_harnesses(fx, kind, msg_path, methods, hprefix, props, tier, maxlen=12):
    """C01/C04 script (b): for EVERY ASCII key of length L (one harness per L, content symbolic) presented with the
       union of all field names, the message type decodes to variant i only if key == name_i (wildcard-free match:
       also the exact variant set) and rejects exactly the keys that are not one of its methods' names."""
    out = []
    for L in range(0, maxlen + 1):
        hname = "%s_len%d" % (hprefix, L)
        # fields offered: union of the fields of the methods whose name has this length (so that those names are
        # accepted and the Ok side is exercised), capped at 4 entries: CBMC cost grows with variants x fields
        union = []
        for m in methods:
            if len(m.wire()) == L:
                for a, t in m.args:
                    if a not in union:
                        union.append(a)
        full = len(union) <= 4
        if not full:
            union = []
        fields = ", ".join("(\"%s\", script::Sv::U(v as u64))" % a for a in union)
        arms = []
        for m in methods:
            arms.append("Ok(%s::%s { .. }) => { assert!(key == \"%s\"); }" % (msg_path, camel(m.name), m.wire()))
        names_l = [m.wire() for m in methods if len(m.wire()) == L and (full or not m.args)]
        errc = " && ".join("key != \"%s\"" % n for n in names_l) or "true"
        arms.append("Err(_) => { assert!(%s); }" % errc)
        body = """
    #[kani::proof]
    #[kani::unwind(%d)]
    fn %s() {
        use serde::Deserialize;
        let bytes: [u8; %d] = kani::any();
        let mut i = 0; while i < %d { kani::assume(bytes[i] < 128); i += 1; }
        let key = unsafe { std::str::from_utf8_unchecked(&bytes) };
        let v: u8 = kani::any();
        let fields: [(&str, script::Sv); %d] = [%s];
        let r = %s::deserialize(script::ED { key, fields: &fields });
        match r {
            %s
        }
        kani::cover!(true, "end of harness reachable");
    }
""" % (max(L, 2) + 2, hname, L, L, len(union), fields, msg_path, "\n            ".join(arms))
        has_name = any(len(m.wire()) == L for m in methods)
        reg(hname, fx["feature"], props, tier if (has_name or L in (0, 5)) else "thorough", "every ASCII key of length %d: accepted iff it is a method name of this kind, and decodes to that method's variant" % L, fx["mod"])
        out.append(body)
    return "\n".join(out)


def cross_kind_decode_harness(fx, k1m, k2, k2_path, k2_methods, hname, props, tier, keylen=12):
    """C04 script: the message type of kind K2 does not accept the name of a K1-only method"""
    if any(o.wire() == k1m.wire() for o in k2_methods):
        return ""
    if not fx.get("names_known", True):
        # in fx_odd the wire name of a method is not its identifier (`setup_2` serialises as `setup2`, which is also
        # the identifier of the instantiate handler): the table cannot say which keys the other kind must reject
        return ""
    fields = ", ".join("(\"%s\", script::Sv::U(%s))" % (a, as_u64("x%d" % k, t)) for k, (a, t) in enumerate(k1m.args))
    body = """
    #[kani::proof]
    #[kani::unwind(%d)]
    fn %s() {
        use serde::Deserialize;
        %s
        let fields: [(&str, script::Sv); %d] = [%s];
        let r = %s::deserialize(script::ED { key: "%s", fields: &fields });
        assert!(r.is_err());
        kani::cover!(true, "end of harness reachable");
    }
""" % (keylen + 4, hname, any_decl(k1m.args), len(k1m.args), fields, k2_path, k1m.wire())
    reg(hname, fx["feature"], props, tier, "a %s-only name is rejected by the %s message type" % (k1m.kind, k2), fx["mod"])
    return body


def emit_contract_fixture(fx):
    """non-generic contract with optional interfaces"""
    out = []
    out.append("//! GENERATED by kani/gen_fixtures.py — do not edit.  Fixture `%s`." % fx["mod"])
    out.append("#![allow(unused_imports, unused_variables, dead_code, clippy::all)]")
    out.append("use crate::support::*;")
    out.append("use cosmwasm_std::{Response, StdError, Binary, Empty};")
    out.append("use sylvia::ctx::{ExecCtx, InstantiateCtx, MigrateCtx, QueryCtx, SudoCtx, ReplyCtx};")
    out.append("")
    for i in fx.get("interfaces", []):
        out.append(emit_iface(i))
        out.append("")
    c = fx["contract"]
    out.append("pub struct %s { pub calls: Calls }" % c)
    out.append("")
    if fx.get("entry_points"):
        out.append("#[sylvia::entry_points]")
    out.append("#[sylvia::contract]")
    out.append("#[sv::error(Echo)]")
    for a in fx.get("attrs", []):
        out.append(a)
    for i in fx.get("interfaces", []):
        out.append("#[sv::messages(%s%s)]" % (i["mod"], i.get("attach", "")))
    out.append("impl %s {" % c)
    out.append("    pub const fn new() -> Self { %s { calls: Calls::new() } }" % c)
    for m in fx["methods"]:
        if m.kind == "helper":
            out.append("    pub fn %s(&self) -> u64 { 42 }" % m.name)
            continue
        for a in m.attrs:
            out.append("    " + a)
        out.append("    #[sv::msg(%s)]" % m.kind)
        args = "".join(", %s%s: %s" % ((m.argattrs[a] + " ") if a in m.argattrs else "", a, t) for a, t in m.args)
        out.append("    fn %s(&self, ctx: %s%s) -> %s {" % (m.name, CTX[m.kind], args, ret_type(m, "Echo")))
        out.append("            " + handler_body(m, "contract", "Echo"))
        out.append("    }")
    out.append("}")
    out.append("")
    for i in fx.get("interfaces", []):
        out.append(emit_iface_impl(i, c))
        out.append("")

    # ---------------- proofs
    out.append("#[cfg(kani)]")
    out.append("pub mod proofs {")
    out.append("    use super::*;")
    out.append("    use cosmwasm_std::{Addr, Deps, DepsMut, QuerierWrapper, Env, MessageInfo};")
    out.append("    use std::cell::Cell;")
    mod = fx["mod"]
    tier = fx.get("tier", "quick")
    methods = [m for m in fx["methods"] if m.kind != "helper"]
    bykind = {}
    for m in methods:
        bykind.setdefault(m.kind, []).append(m)
    perm = fx.get("perm_of")
    p_extra = ["C14"] if perm else []
    for m in methods:
        msgp = "sv::%s" % KIND_MSG[m.kind]
        enum = m.kind in KIND_WRAP
        lit = "%s::%s { %s }" % (msgp, camel(m.name), ctor_fields(m.args)) if enum else "%s { %s }" % (msgp, ctor_fields(m.args))
        # C02 direct dispatch
        out.append(dispatch_harness(fx, m, lit, "c02_%s_%s_%s" % (mod, m.kind, m.name), "direct", m.h + (100 if m.ret == "err_conv" else 0), ["C02", "C04"] + p_extra, tier,
                                    "dispatch postcondition: exactly this handler once, args by name, ctx unchanged, own outcome"))
        # C02/C03 via the contract-level wrapper
        if enum:
            wl = "{ let w: sv::%s = %s.into(); w }" % (KIND_WRAP[m.kind], lit)
            out.append(dispatch_harness(fx, m, wl, "c03_%s_wrap_%s_%s" % (mod, m.kind, m.name), "wrapper", m.h + (100 if m.ret == "err_conv" else 0), ["C02", "C03", "C04"] + p_extra, tier,
                                        "contract-level wrapper routes to the same handler"))
        # C01 / C03 / C05 shapes (only for err-returning scalars; all fixtures use scalar args)
        out.append(shape_harness(fx, m, msgp, "c01_%s_shape_%s_%s" % (mod, m.kind, m.name), ["C01", "C03", "C05"] + p_extra if enum else ["C01"] + p_extra, tier,
                                 wrapper=("sv::%s" % KIND_WRAP[m.kind]) if enum else None,
                                 list_fn=("sv::%s" % KIND_LIST[m.kind]) if enum else None))
        if fx.get("names_known", True):
            out.append(decode_harness(fx, m.kind, msgp, bykind[m.kind], m, "c01_%s_decode_%s_%s" % (mod, m.kind, m.name), ["C01", "C04"] + p_extra, tier))
    for kind, ms in bykind.items():
        if kind in KIND_LIST:
            # the list obligations of a permuted twin are cheap (1 s) and are part of C14's quick tier
            out.append(list_harness(fx, kind, "sv::", ms, "c05_%s_list_%s" % (mod, kind), (["C14"] if perm else ["C05", "C03"]), "quick" if perm else tier))
            if fx.get("names_known", True):
                out.append(names_harnesses(fx, kind, "sv::%s" % KIND_MSG[kind], ms, "c01_%s_names_%s" % (mod, kind), ["C01", "C04"] + p_extra, tier))
    # C04: K1-only names into K2 message types (thorough: every ordered pair)
    for k1, ms1 in bykind.items():
        for k2, ms2 in bykind.items():
            if k1 == k2 or k2 not in KIND_WRAP:
                continue
            m = ms1[0]
            out.append(cross_kind_decode_harness(fx, m, k2, "sv::%s" % KIND_MSG[k2], ms2, "c04_%s_cross_%s_into_%s" % (mod, k1, k2), ["C04"], "thorough" if fx.get("cross_thorough", True) and not (k1 == "exec" and k2 == "query") and not (k1 == "query" and k2 == "exec") and not (k1 == "sudo" and k2 == "exec") else tier))
    # interfaces
    for i in fx.get("interfaces", []):
        ib = {}
        for m in i["methods"]:
            ib.setdefault(m.kind, []).append(m)
        for m in i["methods"]:
            msgp = "%s::sv::%s" % (i["mod"], KIND_MSG[m.kind])
            lit = "%s::%s { %s }" % (msgp, camel(m.name), ctor_fields(m.args))
            eh = m.h + (100 if i["error"] == "IfaceErr" else 0)
            wl = "{ let w: sv::%s = %s.into(); w }" % (KIND_WRAP[m.kind], lit)
            # the handler number seen by the caller is shifted by the error conversion when the interface has its own error type
            mm = M(m.kind, m.name, m.args, m.ret, m.h)
            body = dispatch_harness(fx, mm, wl, "c03_%s_wrap_%s_%s_%s" % (mod, i["mod"], m.kind, m.name), "wrapper", eh, ["C02", "C03", "C04"] + p_extra, tier,
                                    "contract-level wrapper routes an interface message to the interface handler; interface error converted into the contract error")
            out.append(body)
            out.append(shape_harness(fx, m, msgp, "c01_%s_shape_%s_%s_%s" % (mod, i["mod"], m.kind, m.name), ["C01", "C03", "C05"] + p_extra, tier,
                                     wrapper="sv::%s" % KIND_WRAP[m.kind], list_fn="%s::sv::%s" % (i["mod"], KIND_LIST[m.kind])))
            out.append(decode_harness(fx, m.kind, msgp, ib[m.kind], m, "c01_%s_decode_%s_%s_%s" % (mod, i["mod"], m.kind, m.name), ["C01", "C04"] + p_extra, "thorough"))
        for kind, ms in ib.items():
            out.append(list_harness(fx, kind, "%s::sv::" % i["mod"], ms, "c05_%s_list_%s_%s" % (mod, i["mod"], kind), (["C14"] if perm else ["C05", "C03"]), "quick" if perm else tier))
            out.append(names_harnesses(fx, kind, "%s::sv::%s" % (i["mod"], KIND_MSG[kind]), ms, "c01_%s_names_%s_%s" % (mod, i["mod"], kind), ["C01", "C04"] + p_extra, "thorough"))
    # entry points: forwarding + T obligations
    if fx.get("entry_points"):
        for m in methods:
            if m.ret != "err":
                continue
            if m.kind in ("exec", "query", "sudo") and m is not bykind[m.kind][0]:
                continue
            out.append(entry_point_harness(fx, m, tier))
    out.append(t_obligations(fx, bykind))
    out.append("}")
    return "\n".join(out)


def entry_point_harness(fx, m, tier):
    mod = fx["mod"]
    mut = m.kind in MUT
    enum = m.kind in KIND_WRAP
    msgp = "sv::%s" % KIND_MSG[m.kind]
    lit = "%s::%s { %s }" % (msgp, camel(m.name), ctor_fields(m.args)) if enum else "%s { %s }" % (msgp, ctor_fields(m.args))
    if enum:
        lit = "{ let w: sv::%s = %s.into(); w }" % (KIND_WRAP[m.kind], lit)
    deps = ("let deps = DepsMut { storage: &mut s, api: &a, querier: QuerierWrapper::<Empty>::new(&q) };" if mut else
            "let deps = Deps { storage: &s, api: &a, querier: QuerierWrapper::<Empty>::new(&q) };")
    epname = {"exec": "execute"}.get(m.kind, m.kind)
    call = "entry_points::%s(deps, env(h), %smsg)" % (epname, "info(sl), " if m.kind in HAS_INFO else "")
    checks = ["match &*r {", "            Err(Echo::H(o)) => {", "                assert!(o.h == %d);" % m.h]
    for k, (a, t) in enumerate(m.args):
        checks.append("                assert!(o.args[%d] == %s);" % (k, as_u64("x%d" % k, t)))
    checks.append("                assert!(o.height == h);")
    if m.kind in HAS_INFO:
        checks.append("                assert!(o.sender_len == sl as u64);")
    checks += ["            }", "            _ => assert!(false),", "        }"]
    stor = "%d" % m.h if mut else "%d" % (1000 + m.h)
    hname = "c06_%s_ep_%s" % (mod, m.kind)
    body = """
    #[kani::proof]
    #[kani::unwind(4)]
    %s
    fn %s() {
        let mut s = S(Cell::new(77)); let a = A(Cell::new(0)); let q = Q(Cell::new(0));
        let h: u64 = kani::any(); let sl: u8 = kani::any(); kani::assume(sl <= 2);
        %s
        %s
        let msg = %s;
        let r = core::mem::ManuallyDrop::new(%s);
        %s
        assert!(s.0.get() == %s);
        assert!(a.0.get() == 4);
        kani::cover!(true, "end of harness reachable");
    }
""" % (STUBS, hname, any_decl(m.args), deps, lit, call, "\n        ".join(checks), stor)
    reg(hname, fx["feature"], ["C06", "C04"], tier, "entry point builds the contract with new(), dispatches the message with the given deps/env/info and returns the outcome", fx["mod"])
    return body


def t_obligations(fx, bykind):
    """type-level obligations, discharged by rustc while the crate is compiled.  Each sits between markers."""
    mod = fx["mod"]
    c = fx["contract"]
    out = ["", "    // ---- type-level obligations (T) ----", "    #[allow(unreachable_code, unused)]", "    fn t_obligations_%s() {" % mod,
           "        use sylvia::types::{ContractApi, InterfaceApi};", "        fn same<X, Y>() where X: Same<Y> {} trait Same<Y> {} impl<X> Same<X> for X {}"]

    def t(name, code, props):
        full = "%s.T.%s" % (mod, name)
        T_OBLIGATIONS.append(dict(name=full, feature=fx["feature"], props=props, fixture=mod, tier=fx.get("tier", "quick")))
        out.append("        // T-BEGIN %s" % full)
        out.append("        " + code)
        out.append("        // T-END %s" % full)
    p_extra = ["C14"] if fx.get("perm_of") else []
    for kind, ms in bykind.items():
        if kind in KIND_WRAP:
            # exact variant set of the message type: wildcard-free exhaustive match
            arms = " ".join("sv::%s::%s { .. } => {}" % (KIND_MSG[kind], camel(m.name)) for m in ms)
            t("%s_variants_exact" % kind, "{ fn f(m: sv::%s) { match m { %s } } }" % (KIND_MSG[kind], arms), ["C01", "C04"] + p_extra)
    ifs = fx.get("interfaces", [])
    for kind in KIND_WRAP:
        has_own = kind in bykind
        parts = []
        if not fx.get("wrapper_always", True) and not has_own and not any(any(m.kind == kind for m in i["methods"]) for i in ifs):
            continue
        arms = []
        for i in ifs:
            arms.append("sv::%s::%s(_) => {}" % (KIND_WRAP[kind], i["trait"]))
        arms.append("sv::%s::%s(_) => {}" % (KIND_WRAP[kind], c))
        t("%s_wrapper_parts_exact" % kind, "{ fn f(m: sv::%s) { match m { %s } } }" % (KIND_WRAP[kind], " ".join(arms)), ["C03", "C04"] + p_extra)
    if fx.get("entry_points"):
        sigs = {
            "instantiate": "fn(DepsMut, Env, MessageInfo, sv::InstantiateMsg) -> Result<Response, Echo> = entry_points::instantiate",
            "exec": "fn(DepsMut, Env, MessageInfo, sv::ContractExecMsg) -> Result<Response, Echo> = entry_points::execute",
            "query": "fn(Deps, Env, sv::ContractQueryMsg) -> Result<Binary, Echo> = entry_points::query",
            "sudo": "fn(DepsMut, Env, sv::ContractSudoMsg) -> Result<Response, Echo> = entry_points::sudo",
        }
        if "migrate" in bykind:
            sigs["migrate"] = "fn(DepsMut, Env, sv::MigrateMsg) -> Result<Response, Echo> = entry_points::migrate"
        for k, s in sigs.items():
            t("ep_%s_signature" % k, "let _: %s;" % s, ["C06", "C04"] + p_extra)
        t("api_exec_is_wrapper", "same::<<%s as ContractApi>::ContractExec, sv::ContractExecMsg>();" % c, ["C04"])
        t("api_query_is_wrapper", "same::<<%s as ContractApi>::ContractQuery, sv::ContractQueryMsg>();" % c, ["C04"])
        t("api_sudo_is_wrapper", "same::<<%s as ContractApi>::ContractSudo, sv::ContractSudoMsg>();" % c, ["C04"])
    out.append("    }")
    return "\n".join(out)


# ------------------------------------------------------------------ the corpus
U = "u64"


def number(methods, start=1):
    h = start
    for m in methods:
        if m.kind != "helper" and m.h is None:
            m.h = h
            h += 1
    return methods


def fx_basic(perm=False):
    ms = [
        M("exec", "zeta", []),                                   # arity 0, declared first, alphabetically last
        M("instantiate", "instantiate", [("owner", U), ("cap", "u32")]),
        M("exec", "transfer", [("src", U), ("dst", U)]),         # two same-typed args: swap detection
        M("exec", "approve", [("src", U), ("dst", U)]),          # identical signature to transfer
        M("helper", "helper_without_msg"),
        M("query", "balance_of", [("who", U)]),
        M("query", "total_supply", [("at", U)], ret="query_ok"),
        M("exec", "batch_op", [("p%d" % k, U) for k in range(1, 12)]),   # 11 parameters: positional binding beyond field9
        M("sudo", "set_params", [("max_len", "u32"), ("fee", U), ("flag", "u8")]),
        M("sudo", "halt", []),
        M("migrate", "migrate", [("version", "u32")]),
        M("exec", "finish", [("code", "u8")], ret="ok"),         # Ok path: handler's response untouched
        M("exec", "convert_err", [("a", U)], ret="err_conv"),    # handler error type != contract error type: converted by Into
        M("exec", "set_limit", [("limit", "Option<u64>"), ("note", U)]),   # an optional argument still has its own entry (null) on the wire
    ]
    number(ms)
    if perm:
        ms = list(reversed(ms))
    return dict(mod="fx_basic_perm" if perm else "fx_basic", feature="g_basic", contract="BasicP" if perm else "Basic", methods=ms, entry_points=True,
                perm_of="fx_basic" if perm else None, tier="thorough" if perm else "quick")


def fx_multi(perm=False):
    ia = dict(mod="ia", trait="Ia", error="Echo", methods=number([
        M("exec", "ia_exec", [("a", U)]),
        M("sudo", "shape_twin", [("a", U), ("b", U)]),      # same argument shape as the contract exec `shape_twin_c`
        M("query", "ia_query", [("a", U)]),
    ], 10))
    ib = dict(mod="ib", trait="Ib", error="Echo", methods=number([
        M("exec", "ib_exec", [("n", "u32"), ("m", U)]),
        M("query", "ib_query", []),
    ], 20))
    ms = number([
        M("instantiate", "instantiate", []),
        M("exec", "shape_twin_c", [("a", U), ("b", U)]),
        M("exec", "ia", [("a", U)]),                         # prefix of the interface method name `ia_exec`
        M("sudo", "ia_exec_sudo", [("a", U)]),               # shares a prefix with an exec of another kind
        M("query", "own_query", [("a", U)]),
    ])
    ifs = [ia, ib]
    if perm:
        ifs = [ib, ia]
        ms = list(reversed(ms))
        for i in ifs:
            i["methods"] = list(reversed(i["methods"]))
    return dict(mod="fx_multi_perm" if perm else "fx_multi", feature="g_multi", contract="MultiP" if perm else "Multi", methods=ms, interfaces=ifs, entry_points=True,
                perm_of="fx_multi" if perm else None, tier="thorough" if perm else "quick")


def fx_digits():
    # names from C03's wider quantifier (digit-bearing); separate feature group (DESIGN.md §5 item 2)
    ms = number([
        M("instantiate", "instantiate", []),
        M("exec", "step2", [("amount", U), ("who", U)]),
        M("exec", "mint_v2_now", [("n", U)]),
        M("query", "level3", [("a", U)]),
    ])
    return dict(mod="fx_digits", feature="g_digits", contract="Digits", methods=ms, entry_points=False, tier="quick", check_ctor=False)


def fx_odd():
    # names outside C01's grammar but inside C03/C05's self-consistency clauses: camelCase, leading / trailing /
    # repeated underscores.  The oracle for these names is the serialised variant itself (recording Serializer),
    # not the table: the published list must contain exactly what the messages serialise under.
    ms = number([
        # instantiate / migrate handlers whose names carry digits, each with a twin of another kind under the name a
        # case-conversion round trip would produce (setup2 -> setup_2, migrate_v2 -> migrate_v_2)
        M("instantiate", "setup2", [("a", U)]),
        M("exec", "setup_2", [("a", U)]),
        M("migrate", "migrate_v2", [("a", U)]),
        M("sudo", "migrate_v_2", [("a", U)]),
        M("exec", "transferFrom", [("amount", U)]),
        M("exec", "_lead", [("a", U)]),
        M("exec", "dbl__under", [("a", U)]),
        M("query", "trail_", [("a", U)]),
        M("exec", "step_2", [("a", U)]),
        M("sudo", "__reset", [("a", U)]),
    ])
    return dict(mod="fx_odd", feature="g_digits", contract="Odd", methods=ms, entry_points=False, tier="quick", check_ctor=False, names_known=False,
                attrs=["#[allow(non_snake_case)]"])


def main():
    os.makedirs(OUT, exist_ok=True)
    written = set()

    def put(name, text):
        # write only when changed: keeps cargo's incremental build warm
        p = os.path.join(OUT, name)
        written.add(name)
        if not os.path.exists(p) or open(p).read() != text:
            open(p, "w").write(text)
    mods = []
    for fx in [fx_basic(), fx_basic(True), fx_multi(), fx_multi(True), fx_digits(), fx_odd()]:
        src = emit_contract_fixture(fx)
        put(fx["mod"] + ".rs", src + "\n")
        mods.append((fx["mod"], fx["feature"]))
    for fx in [fx_reply(), fx_reply(True), fx_reply_typed(), fx_reply_order("a"), fx_reply_order("b"), fx_data()]:
        src = emit_reply_fixture(fx)
        put(fx["mod"] + ".rs", src + "\n")
        mods.append((fx["mod"], fx["feature"]))
    for fx in ep_fixtures():
        src = emit_ep_fixture(fx)
        put(fx["mod"] + ".rs", src + "\n")
        mods.append((fx["mod"], fx["feature"]))
    for which in ("a", "b"):
        mod, feat, src = emit_overlap_fixture(which)
        put(mod + ".rs", src)
        mods.append((mod, feat))
    t = "//! GENERATED by kani/gen_fixtures.py — do not edit.\n"
    for m, feat in mods:
        t += "#[cfg(feature = \"%s\")]\npub mod %s;\n" % (feat, m)
    put("mod.rs", t)
    put("harnesses.json", json.dumps(dict(harnesses=HARNESSES, t_obligations=T_OBLIGATIONS), indent=1))
    for f in os.listdir(OUT):
        if f not in written:
            os.remove(os.path.join(OUT, f))
    print("generated %d fixtures, %d harnesses, %d T obligations" % (len(mods), len(HARNESSES), len(T_OBLIGATIONS)))




# ====================================================================== reply fixtures (C07, C08, C09, C14)
DATA_MODES = {
    # mode -> (attribute, parameter type)
    "raw": ("#[sv::data(raw)]", "Binary"),
    "raw_opt": ("#[sv::data(raw, opt)]", "Option<Binary>"),
    "typed": ("#[sv::data]", "u64"),
    "opt": ("#[sv::data(opt)]", "Option<u64>"),
    "inst": ("#[sv::data(instantiate)]", "cw_utils::MsgInstantiateContractResponse"),
    "inst_opt": ("#[sv::data(instantiate, opt)]", "Option<cw_utils::MsgInstantiateContractResponse>"),
}


class R:
    """one reply method"""
    def __init__(self, name, on, handlers=None, data=None, payload="raw", h=None):
        self.name, self.on, self.handlers, self.data, self.payload, self.h = name, on, handlers, data, payload, h


def reply_method_src(r):
    attr = "#[sv::msg(reply%s, reply_on=%s)]" % ((", handlers=[%s]" % ", ".join(r.handlers)) if r.handlers else "", r.on)
    params = []
    body = ["let mut o = Obs::new(%d);" % r.h, "o.args[0] = ctx.gas_used;", "o.args[1] = ctx.events.len() as u64;", "o.args[2] = ctx.msg_responses.len() as u64;", "o.height = ctx.env.block.height;",
            "ctx.deps.storage.set(b\"k\", &[%d]);" % r.h]
    if r.on == "success":
        if r.data:
            a, t = DATA_MODES[r.data]
            params.append("%s data: %s" % (a, t))
            if r.data == "raw":
                body += ["o.args[5] = 1;", "o.args[6] = data.len() as u64;", "o.args[7] = if data.len() > 0 { data.as_slice()[0] as u64 } else { 0 };"]
            elif r.data == "raw_opt":
                body += ["match &data { Some(d) => { o.args[5] = 1; o.args[6] = d.len() as u64; o.args[7] = if d.len() > 0 { d.as_slice()[0] as u64 } else { 0 }; } None => { o.args[5] = 0; } }"]
            elif r.data == "typed":
                body += ["o.args[5] = 1;", "o.args[6] = data;"]
            elif r.data == "opt":
                body += ["match data { Some(d) => { o.args[5] = 1; o.args[6] = d; } None => { o.args[5] = 0; } }"]
            elif r.data == "inst":
                body += ["o.args[5] = 1;", "o.args[6] = data.contract_address.len() as u64;"]
            elif r.data == "inst_opt":
                body += ["match &data { Some(d) => { o.args[5] = 1; o.args[6] = d.contract_address.len() as u64; } None => { o.args[5] = 0; } }"]
    elif r.on == "error":
        params.append("error: String")
        body += ["o.args[5] = error.len() as u64;", "o.args[6] = if error.len() > 0 { error.as_bytes()[0] as u64 } else { 0 };"]
    else:
        params.append("result: SubMsgResult")
        body += ["#[allow(deprecated)]", "{ o.args[5] = match &result { SubMsgResult::Ok(r) => 100 + r.events.len() as u64 + 10 * (r.data.is_some() as u64), SubMsgResult::Err(e) => 2 + e.len() as u64 }; }"]
    if r.payload == "raw":
        params.append("#[sv::payload(raw)] payload: Binary")
        body += ["o.args[3] = payload.len() as u64;", "o.args[4] = if payload.len() > 0 { payload.as_slice()[0] as u64 } else { 0 };", "o.extra = if payload.len() > 1 { payload.as_slice()[1] as u64 } else { 0 };"]
    else:
        for k, t in enumerate(r.payload):
            params.append("p%d: %s" % (k, t))
            body.append(("o.args[%d] = p%d.len() as u64;" if t == "Binary" else "o.args[%d] = p%d as u64;") % (8 + k, k))
    body.append("Err(Echo::H(o))")
    return "    %s\n    fn %s(&self, ctx: ReplyCtx%s) -> Result<Response, Echo> {\n            %s\n    }" % (
        attr, r.name, "".join(", " + p for p in params), "\n            ".join(body))


def reply_table(rs):
    """handler name -> dict(id, succ, err, always) in declaration order (ids = index in the de-duplicated table)"""
    table = []
    for r in rs:
        for hn in (r.handlers or [r.name]):
            e = next((t for t in table if t["name"] == hn), None)
            if e is None:
                e = dict(name=hn, succ=None, err=None, always=None, payload=r.payload)
                table.append(e)
            e[{"success": "succ", "error": "err", "always": "always"}[r.on]] = r
    return table


REPLY_PRE = """        let mut s = S(Cell::new(77)); let a = A(Cell::new(0)); let q = Q(Cell::new(0));
        let deps = DepsMut { storage: &mut s, api: &a, querier: QuerierWrapper::<Empty>::new(&q) };
        let gas: u64 = kani::any(); let h: u64 = kani::any();
        let pb: [u8; 2] = kani::any();"""


def reply_harness(fx, e, outcome, hname, props, tier, data_case=None):
    """dispatch_reply postcondition for one declared handler name and one outcome (concrete id, symbolic gas/payload/events)"""
    c = fx["contract"]
    const = "sv::%s_REPLY_ID" % e["name"].upper()
    lines = [REPLY_PRE]
    if outcome == "ok":
        # one event, concrete: a symbolic number of heap-allocated events makes CBMC run out of memory
        lines.append("        let ne: u8 = 1;")
        lines.append("        let evs = vec![Event::new(\"e\")];")
        lines.append("        let with_data: bool = kani::any(); let db: u8 = kani::any();")
        lines.append("        #[allow(deprecated)]")
        lines.append("        let result = SubMsgResult::Ok(SubMsgResponse { events: evs, data: if with_data { Some(Binary::new(vec![db])) } else { None }, msg_responses: vec![] });")
    else:
        lines.append("        let el: u8 = kani::any(); kani::assume(el <= 2); let ec: u8 = kani::any(); kani::assume(ec < 128);")
        lines.append("        let mut es = String::new(); let mut i = 0; while i < el { es.push(ec as char); i += 1; }")
        lines.append("        let result = SubMsgResult::Err(es);")
    lines.append("        let r = core::mem::ManuallyDrop::new(sv::dispatch_reply(deps, env(h), Reply { id: %s, payload: Binary::new(pb.to_vec()), gas_used: gas, result }, %s::new()));" % (const, c))
    m = (e["succ"] or e["always"]) if outcome == "ok" else (e["err"] or e["always"])
    if m is not None:
        lines.append("        match &*r {")
        lines.append("            Err(Echo::H(o)) => {")
        lines.append("                assert!(o.h == %d);" % m.h)
        lines.append("                assert!(o.args[0] == gas && o.height == h);")
        lines.append("                assert!(o.args[3] == 2 && o.args[4] == pb[0] as u64 && o.extra == pb[1] as u64);")
        if m.on == "success":
            lines.append("                assert!(o.args[1] == ne as u64 && o.args[2] == 0);")
            if m.data == "raw_opt":
                lines.append("                if with_data { assert!(o.args[5] == 1 && o.args[6] == 1 && o.args[7] == db as u64); } else { assert!(o.args[5] == 0); }")
        elif m.on == "error":
            lines.append("                assert!(o.args[1] == 0 && o.args[2] == 0);")
            lines.append("                assert!(o.args[5] == el as u64 && (el == 0 || o.args[6] == ec as u64));")
        else:
            lines.append("                assert!(o.args[1] == 0 && o.args[2] == 0);")
            lines.append("                assert!(o.args[5] == %s);" % ("100 + ne as u64 + 10 * (with_data as u64)" if outcome == "ok" else "2 + el as u64"))
        lines.append("            }")
        lines.append("            _ => assert!(false),")
        lines.append("        }")
        lines.append("        assert!(s.0.get() == %d);" % m.h)
        clause = "reply id of `%s`, sub-message %s: the method declared for %s runs with gas_used, %s, raw payload byte for byte" % (
            e["name"], "succeeded" if outcome == "ok" else "failed", m.on, "events and msg_responses" if m.on == "success" else ("the error text" if m.on == "error" else "the full result"))
    else:
        if outcome == "ok":
            lines.append("        match &*r {")
            lines.append("            Ok(resp) => {")
            lines.append("                assert!(resp.events.len() == ne as usize && resp.messages.is_empty() && resp.attributes.is_empty());")
            lines.append("                match &resp.data { Some(d) => assert!(with_data && d.as_slice().len() == 1 && d.as_slice()[0] == db), None => assert!(!with_data) }")
            lines.append("            }")
            lines.append("            _ => assert!(false),")
            lines.append("        }")
            clause = "reply id of `%s`, success with no success/always method: answered as if no reply had been requested (events and data passed through), no handler ran" % e["name"]
        else:
            lines.append("        match &*r { Err(Echo::Std) => {}, _ => assert!(false) }")
            lines.append("        let (tl, tb) = last_generic_text();")
            lines.append("        assert!(tl == el as u64 && (el == 0 || tb == ec));")
            clause = "reply id of `%s`, failure with no error/always method: that error is returned with the sub-message's own error text (length and first byte, 0-2 symbolic bytes), no handler ran" % e["name"]
        lines.append("        assert!(s.0.get() == 77);")
    lines.append("        kani::cover!(true, \"end of harness reachable\");")
    body = "\n    #[kani::proof]\n    #[kani::unwind(5)]\n    %s\n    fn %s() {\n%s\n    }\n" % (STUBS, hname, "\n".join(lines))
    reg(hname, fx["feature"], props, tier, clause, fx["mod"])
    return body


def unknown_id_harness(fx, n, hname, props, tier):
    c = fx["contract"]
    body = ""
    for oc, res in (("ok", "SubMsgResult::Ok(SubMsgResponse { events: vec![], data: None, msg_responses: vec![] })"), ("err", "SubMsgResult::Err(String::new())")):
        body += """
    #[kani::proof]
    #[kani::unwind(5)]
    %s
    fn %s_%s() {
%s
        let id: u64 = kani::any(); kani::assume(id >= %d);
        #[allow(deprecated)]
        let result = %s;
        let r = core::mem::ManuallyDrop::new(sv::dispatch_reply(deps, env(h), Reply { id, payload: Binary::new(pb.to_vec()), gas_used: gas, result }, %s::new()));
        match &*r { Err(Echo::Std) => {}, _ => assert!(false) }
        assert!(s.0.get() == 77);
        kani::cover!(true, "end of harness reachable");
    }
""" % (STUBS, hname, oc, REPLY_PRE, n, res, c)
        reg("%s_%s" % (hname, oc), fx["feature"], props, tier, "every id >= %d (belonging to no handler), sub-message %s: an error, and no handler runs" % (n, "succeeded" if oc == "ok" else "failed"), fx["mod"])
    return body


def submsg_harness(fx, e, receiver, hname, props, tier):
    """C08: builder stamps id, reply_on, keeps message (and gas limit for SubMsg), raw payload byte for byte"""
    on = "Always" if (e["always"] or (e["succ"] and e["err"])) else ("Success" if e["succ"] else "Error")
    lines = ["        let pb: [u8; 2] = kani::any();"]
    if receiver == "submsg":
        lines.append("        let id0: u64 = kani::any(); let gl: Option<u64> = kani::any();")
        # the receiver may already carry any reply trigger (and id): the builder overrides both
        lines.append("        let ro0 = match kani::any::<u8>() % 4 { 0 => ReplyOn::Always, 1 => ReplyOn::Error, 2 => ReplyOn::Success, _ => ReplyOn::Never };")
        lines.append("        let base: SubMsg<Empty> = SubMsg { id: id0, payload: Binary::default(), msg: CosmosMsg::Bank(BankMsg::Burn { amount: vec![] }), gas_limit: gl, reply_on: ro0 };")
        keep = "CosmosMsg::Bank(BankMsg::Burn { amount })"
        gas = "sub.gas_limit == gl"
    elif receiver == "wasm":
        lines.append("        let base = WasmMsg::ClearAdmin { contract_addr: String::new() };")
        keep = "CosmosMsg::Wasm(WasmMsg::ClearAdmin { contract_addr })"
        gas = "sub.gas_limit.is_none()"
    else:
        lines.append("        let base: CosmosMsg<Empty> = CosmosMsg::Bank(BankMsg::Burn { amount: vec![] });")
        keep = "CosmosMsg::Bank(BankMsg::Burn { amount })"
        gas = "sub.gas_limit.is_none()"
    lines.append("        let r: StdResult<SubMsg<Empty>> = sv::SubMsgMethods::<Empty>::%s(base, Binary::new(pb.to_vec()));" % e["name"])
    lines.append("        let r = core::mem::ManuallyDrop::new(r);")
    lines.append("        match &*r {")
    lines.append("            Ok(sub) => {")
    lines.append("                assert!(sub.id == sv::%s_REPLY_ID);" % e["name"].upper())
    lines.append("                assert!(matches!(sub.reply_on, ReplyOn::%s));" % on)
    lines.append("                assert!(%s);" % gas)
    lines.append("                assert!(matches!(&sub.msg, %s));" % keep.replace("{ amount }", "{ .. }").replace("{ contract_addr }", "{ .. }"))
    lines.append("                assert!(sub.payload.as_slice().len() == 2 && sub.payload.as_slice()[0] == pb[0] && sub.payload.as_slice()[1] == pb[1]);")
    lines.append("            }")
    lines.append("            Err(_) => assert!(false),")
    lines.append("        }")
    lines.append("        kani::cover!(true, \"end of harness reachable\");")
    body = "\n    #[kani::proof]\n    #[kani::unwind(5)]\n    %s\n    fn %s() {\n%s\n    }\n" % (STUBS, hname, "\n".join(lines))
    reg(hname, fx["feature"], props, tier, "SubMsgMethods::%s on a %s: id = %s_REPLY_ID, reply_on = %s, message kept, %s, raw payload byte for byte" % (
        e["name"], receiver, e["name"].upper(), on, "gas limit kept" if receiver == "submsg" else "gas limit None"), fx["mod"])
    return body


def data_harness(fx, e, m, case, hname, props, tier):
    """C09: one cell of data mode x {absent, present}; present = 2 symbolic bytes for raw modes, a non-protobuf envelope (0xff) for decoded modes"""
    c = fx["contract"]
    const = "sv::%s_REPLY_ID" % e["name"].upper()
    lines = [REPLY_PRE]
    mode = m.data
    if case == "absent":
        lines.append("        let data: Option<Binary> = None;")
    elif mode in ("raw", "raw_opt", None):
        # present data of 0, 1 or 2 symbolic bytes (present-but-empty is NOT missing)
        lines.append("        let db: [u8; 2] = kani::any(); let dl: usize = kani::any(); kani::assume(dl <= 2);")
        lines.append("        let data: Option<Binary> = Some(Binary::new(db[..dl].to_vec()));")
    else:
        lines.append("        let data: Option<Binary> = Some(Binary::new(vec![0xff]));")
    lines.append("        #[allow(deprecated)]")
    lines.append("        let result = SubMsgResult::Ok(SubMsgResponse { events: vec![], data, msg_responses: vec![] });")
    lines.append("        let r = core::mem::ManuallyDrop::new(sv::dispatch_reply(deps, env(h), Reply { id: %s, payload: Binary::new(pb.to_vec()), gas_used: gas, result }, %s::new()));" % (const, c))
    runs = None
    if mode is None:
        runs = "assert!(o.args[5] == 0);"
        clause = "no data parameter: the handler runs whatever the data"
    elif case == "absent":
        if mode.endswith("opt"):
            runs = "assert!(o.args[5] == 0);"
            clause = "mode %s, data absent: the handler receives None" % mode
        else:
            clause = "mode %s, data absent: missing-data error, handler not invoked" % mode
    else:
        if mode == "raw":
            runs = "assert!(o.args[5] == 1 && o.args[6] == dl as u64 && (dl == 0 || o.args[7] == db[0] as u64));"
            clause = "mode raw: the bytes (0-2 symbolic bytes, including present-but-empty) are passed through"
        elif mode == "raw_opt":
            runs = "assert!(o.args[5] == 1 && o.args[6] == dl as u64 && (dl == 0 || o.args[7] == db[0] as u64));"
            clause = "mode raw,opt: Some(bytes) (0-2 symbolic bytes) passed through"
        else:
            clause = "mode %s, data not a response envelope: error, handler not invoked" % mode
    if runs is not None:
        lines.append("        match &*r { Err(Echo::H(o)) => { assert!(o.h == %d && o.args[0] == gas); %s } _ => assert!(false) }" % (m.h, runs))
        lines.append("        assert!(s.0.get() == %d);" % m.h)
    else:
        lines.append("        match &*r { Err(Echo::Std) => {}, _ => assert!(false) }")
        lines.append("        assert!(s.0.get() == 77);")
    lines.append("        kani::cover!(true, \"end of harness reachable\");")
    stubs = STUBS
    if case == "present" and mode in ("typed", "opt"):
        # without this stub CBMC does not finish (900 s): it symbolically executes the JSON parser of the branch that
        # the non-envelope byte can never reach
        stubs += "\n    #[kani::stub(cosmwasm_std::from_json, from_json_unreachable_stub)]"
        clause += " (cosmwasm_std::from_json stubbed to fail: unreachable for this input, listed as an assumption)"
    body = "\n    #[kani::proof]\n    #[kani::unwind(6)]\n    %s\n    fn %s() {\n%s\n    }\n" % (stubs, hname, "\n".join(lines))
    reg(hname, fx["feature"], props, tier, clause, fx["mod"])
    return body


def typed_submsg_harness(fx, e, hname, props, tier):
    """C08, builder half for typed payloads: the payload is the canonical JSON of the argument (one value) or of the
    tuple of arguments (several), values < 10.  The decode half (from_json in dispatch_reply) is out of reach."""
    n = len(e["payload"])
    on = "Always" if (e["always"] or (e["succ"] and e["err"])) else ("Success" if e["succ"] else "Error")
    if e["payload"] == ["Binary"]:
        # a single typed (NOT raw-marked) Binary is still JSON-encoded: a quoted base64 string
        lines = ["        let b: u8 = kani::any();", "        let base = WasmMsg::ClearAdmin { contract_addr: String::new() };",
                 "        let r: StdResult<SubMsg<Empty>> = sv::SubMsgMethods::<Empty>::%s(base, Binary::new(vec![b]));" % e["name"],
                 "        let r = core::mem::ManuallyDrop::new(r);", "        match &*r {", "            Ok(sub) => {",
                 "                assert!(sub.id == sv::%s_REPLY_ID && matches!(sub.reply_on, ReplyOn::%s));" % (e["name"].upper(), on),
                 "                let p = sub.payload.as_slice();",
                 "                assert!(p.len() == 6 && p[0] == b'\"' && p[5] == b'\"' && p[3] == b'=' && p[4] == b'=');",
                 "            }", "            Err(_) => assert!(false),", "        }", "        kani::cover!(true, \"end of harness reachable\");"]
        body = "\n    #[kani::proof]\n    #[kani::unwind(30)]\n    %s\n    #[kani::stub(cosmwasm_std::Binary::to_base64, b64_stub)]\n    fn %s() {\n%s\n    }\n" % (STUBS, hname, "\n".join(lines))
        reg(hname, fx["feature"], props, tier, "SubMsgMethods::%s with one typed (not raw-marked) Binary payload: the payload is JSON-encoded (a quoted string), not passed raw (Binary::to_base64 stubbed with a fixed text: assumption)" % e["name"], fx["mod"])
        return body
    vals = ["v%d" % k for k in range(n)]
    lines = ["        " + " ".join("let %s: u8 = kani::any(); kani::assume(%s < 10);" % (v, v) for v in vals)]
    lines.append("        let base = WasmMsg::ClearAdmin { contract_addr: String::new() };")
    args = ", ".join("%s as %s" % (v, t) for v, t in zip(vals, e["payload"]))
    lines.append("        let r: StdResult<SubMsg<Empty>> = sv::SubMsgMethods::<Empty>::%s(base, %s);" % (e["name"], args))
    lines.append("        let r = core::mem::ManuallyDrop::new(r);")
    lines.append("        match &*r {")
    lines.append("            Ok(sub) => {")
    lines.append("                assert!(sub.id == sv::%s_REPLY_ID && matches!(sub.reply_on, ReplyOn::%s) && sub.gas_limit.is_none());" % (e["name"].upper(), on))
    lines.append("                let p = sub.payload.as_slice();")
    if n == 1:
        lines.append("                assert!(p.len() == 1 && p[0] == b'0' + v0);")
    else:
        lines.append("                assert!(p.len() == %d && p[0] == b'[' && p[%d] == b']');" % (2 * n + 1, 2 * n))
        for k in range(n):
            lines.append("                assert!(p[%d] == b'0' + v%d);" % (1 + 2 * k, k))
            if k < n - 1:
                lines.append("                assert!(p[%d] == b',');" % (2 + 2 * k))
    lines.append("            }")
    lines.append("            Err(_) => assert!(false),")
    lines.append("        }")
    lines.append("        kani::cover!(true, \"end of harness reachable\");")
    body = "\n    #[kani::proof]\n    #[kani::unwind(30)]\n    %s\n    fn %s() {\n%s\n    }\n" % (STUBS, hname, "\n".join(lines))
    reg(hname, fx["feature"], props, tier, "SubMsgMethods::%s with a typed payload (%s): id, reply_on, and payload = canonical JSON of the argument%s (values < 10); the decode half needs a JSON parser and is uncovered" % (
        e["name"], ", ".join(e["payload"]), "" if n == 1 else " tuple"), fx["mod"])
    return body


def emit_reply_fixture(fx):
    rs = fx["replies"]
    c = fx["contract"]
    out = ["//! GENERATED by kani/gen_fixtures.py — do not edit.  Reply fixture `%s`." % fx["mod"],
           "#![allow(unused_imports, unused_variables, dead_code, deprecated, clippy::all)]", "use crate::support::*;",
           "use cosmwasm_std::{Response, StdError, Binary, Empty, SubMsgResult};", "use sylvia::ctx::{InstantiateCtx, ReplyCtx};", "",
           "pub struct %s;" % c, ""]
    if fx.get("entry_points"):
        out.append("#[sylvia::entry_points]")
    out += ["#[sylvia::contract]", "#[sv::error(Echo)]", "#[sv::features(replies)]", "impl %s {" % c, "    pub const fn new() -> Self { %s }" % c,
            "    #[sv::msg(instantiate)]", "    fn instantiate(&self, _ctx: InstantiateCtx) -> Result<Response, Echo> { Err(Echo::Std) }"]
    for r in rs:
        out.append(reply_method_src(r))
    out.append("}")
    out.append("")
    out.append("//@NATIVE-CONSTS@")
    out.append("#[cfg(kani)]")
    out.append("pub mod proofs {")
    out.append("    use super::*;")
    out.append("    use cosmwasm_std::{Addr, DepsMut, QuerierWrapper, Env, Reply, SubMsgResponse, Event, SubMsg, CosmosMsg, BankMsg, WasmMsg, ReplyOn, StdResult};")
    out.append("    use std::cell::Cell;")
    table = reply_table(rs)
    mod = fx["mod"]
    tier = fx.get("tier", "quick")
    px = ["C14"] if fx.get("perm_of") else []
    if fx.get("dispatch", True):
        for e in table:
            if e["payload"] != "raw":
                continue
            for outcome in ("ok", "err"):
                m = (e["succ"] or e["always"]) if outcome == "ok" else (e["err"] or e["always"])
                if m is not None and m.on == "success" and m.data not in (None, "raw_opt"):
                    continue   # data modes are exercised by the C09 fixture
                out.append(reply_harness(fx, e, outcome, "c07_%s_%s_%s" % (mod, e["name"], outcome), ["C07"] + px, tier))
        out.append(unknown_id_harness(fx, len(table), "c07_%s_unknown_id" % mod, ["C07"] + px, tier))
    if fx.get("submsg", True):
        for e in table:
            if e["payload"] != "raw":
                continue
            for recv in ("submsg", "wasm", "cosmos"):
                out.append(submsg_harness(fx, e, recv, "c08_%s_%s_%s" % (mod, e["name"], recv), ["C08"] + px, tier if recv == "submsg" else "thorough"))
    for e in table:
        if e["payload"] != "raw" and fx.get("submsg", True):
            out.append(typed_submsg_harness(fx, e, "c08_%s_%s_typed_builder" % (mod, e["name"]), ["C08"], "quick" if e["payload"] == ["Binary"] else "thorough"))
    if fx.get("data_cells"):
        for e in table:
            m = e["succ"]
            for case in ("absent", "present"):
                if case == "present" and m.data in ("typed", "opt"):
                    # tried three ways and dropped: plain (900 s timeout), with cosmwasm_std::from_json stubbed to fail
                    # (still 900 s: the cost is not the JSON parser alone) and with -Z restrict-vtable (900 s).  These two
                    # cells (decoded-execute modes x non-envelope byte) are uncovered.
                    continue
                out.append(data_harness(fx, e, m, case, "c09_%s_%s_%s" % (mod, e["name"], case), ["C09"], tier))
    # T: ids pairwise distinct, and equal to the index in the de-duplicated table (declaration order)
    out += ["", "    #[allow(unused)]", "    fn t_obligations_%s() {" % mod]
    conds = []
    for i, a in enumerate(table):
        for b in table[i + 1:]:
            conds.append("sv::%s_REPLY_ID != sv::%s_REPLY_ID" % (a["name"].upper(), b["name"].upper()))
    name = "%s.T.reply_ids_distinct" % mod
    # const-evaluated obligation: placed at module level OUTSIDE the cfg(kani) module and decided by a native
    # `cargo check` (kani-compiler does not evaluate unused constants: found while testing seed C17c_2)
    T_OBLIGATIONS.append(dict(name=name, feature=fx["feature"], props=["C08"] + px, fixture=mod, tier=tier, native=True))
    native_consts = ["// T-BEGIN %s" % name, "const _: () = assert!(%s);" % (" && ".join(conds) or "true"), "// T-END %s" % name]
    name = "%s.T.accepted" % mod
    T_OBLIGATIONS.append(dict(name=name, feature=fx["feature"], props=["C14"] if fx.get("perm_of") or fx.get("order_twin") else ["C07"], fixture=mod, tier=tier))
    out.append("        // T-BEGIN %s  (the fixture as a whole is accepted by the macros)" % name)
    out.append("        let _ = %s::new();" % c)
    out.append("        // T-END %s" % name)
    if fx.get("entry_points"):
        name = "%s.T.ep_reply_signature" % mod
        T_OBLIGATIONS.append(dict(name=name, feature=fx["feature"], props=["C06"], fixture=mod, tier=tier))
        out.append("        // T-BEGIN %s" % name)
        out.append("        let _: fn(DepsMut, Env, Reply) -> Result<Response, Echo> = entry_points::reply;")
        out.append("        // T-END %s" % name)
    out.append("    }")
    if fx.get("entry_points"):
        e = table[0]
        out.append(reply_harness(dict(fx, ep=True), e, "err" if e["err"] or e["always"] else "ok", "c06_%s_ep_reply" % mod, ["C06"], tier).replace(
            "sv::dispatch_reply(deps, env(h), Reply {", "entry_points::reply(deps, env(h), Reply {").replace(", %s::new()));" % c, "));"))
    out.append("}")
    return "\n".join(out).replace("//@NATIVE-CONSTS@", "\n".join(native_consts))


def fx_reply(perm=False):
    rs = [
        R("h_succ", "success", data="raw_opt"),
        R("h_err", "error"),
        R("b_succ", "success", handlers=["both"]),
        R("b_err", "error", handlers=["both"]),
        R("h_always", "always"),
        R("multi", "success", handlers=["m_one", "m_two"], data="raw_opt"),
    ]
    for k, r in enumerate(rs):
        r.h = k + 1
    if perm:
        rs = list(reversed(rs))
    return dict(mod="fx_reply_perm" if perm else "fx_reply", feature="g_reply_perm" if perm else "g_reply", contract="ReplyP" if perm else "ReplyC", replies=rs, entry_points=True,
                perm_of="fx_reply" if perm else None, tier="quick")


def fx_reply_typed():
    # typed (JSON) payloads: only type-level and builder-side obligations are in reach (from_json is not)
    # third handler: one typed, NOT raw-marked `Binary` payload.  Running the base64 encoder of Binary's Serialize does not
    # finish under CBMC (900 s), so its harness stubs Binary::to_base64 with a fixed text and decides only "JSON-encoded
    # (quoted string) vs passed raw"
    rs = [R("typed_one", "success", payload=["u64"]), R("typed_two", "error", payload=["u64", "u32"]), R("typed_bin", "success", payload=["Binary"])]
    rs[0].h, rs[1].h, rs[2].h = 1, 2, 3
    return dict(mod="fx_reply_typed", feature="g_reply", contract="ReplyT", replies=rs, tier="quick", dispatch=False)


def fx_reply_order(which):
    # success-with-data and error under one handler name, in both declaration orders (DESIGN.md §5 item 3)
    rs = [R("o_succ", "success", handlers=["ord"], data="raw_opt"), R("o_err", "error", handlers=["ord"])]
    rs[0].h, rs[1].h = 1, 2
    if which == "b":
        rs = list(reversed(rs))
    return dict(mod="fx_reply_ord_" + which, feature="g_reply_ord_" + which, contract="Ord" + which.upper(), replies=rs, order_twin=True, tier="quick", submsg=(which == "a"))


def fx_data():
    rs = [R("d_" + m, "success", data=m) for m in DATA_MODES] + [R("d_none", "success")]
    for k, r in enumerate(rs):
        r.h = k + 1
    return dict(mod="fx_data", feature="g_data", contract="DataC", replies=rs, tier="quick", dispatch=False, submsg=False, data_cells=True)



# ====================================================================== entry-point fixtures (C06)
EP_KINDS = ["instantiate", "exec", "query", "sudo", "migrate", "reply"]
EP_FN = {"instantiate": "instantiate", "exec": "execute", "query": "query", "sudo": "sudo", "migrate": "migrate", "reply": "reply"}
EP_SIG = {
    "instantiate": "fn(DepsMut, Env, MessageInfo, sv::InstantiateMsg) -> Result<Response, Echo>",
    "exec": "fn(DepsMut, Env, MessageInfo, sv::ContractExecMsg) -> Result<Response, Echo>",
    "query": "fn(Deps, Env, sv::ContractQueryMsg) -> Result<Binary, Echo>",
    "sudo": "fn(DepsMut, Env, sv::ContractSudoMsg) -> Result<Response, Echo>",
    "migrate": "fn(DepsMut, Env, sv::MigrateMsg) -> Result<Response, Echo>",
    "reply": "fn(DepsMut, Env, Reply) -> Result<Response, Echo>",
}
OV_PARAMS = {
    "instantiate": "deps: DepsMut, env: Env, info: MessageInfo, msg: OvMsg", "exec": "deps: DepsMut, env: Env, info: MessageInfo, msg: OvMsg",
    "query": "deps: Deps, env: Env, msg: OvMsg", "sudo": "deps: DepsMut, env: Env, msg: OvMsg", "migrate": "deps: DepsMut, env: Env, msg: OvMsg",
    "reply": "deps: DepsMut, env: Env, msg: Reply",
}


def emit_ep_fixture(fx):
    mod, c = fx["mod"], fx["contract"]
    ov = fx["override"]
    has = dict(migrate=fx.get("migrate", True), reply=fx.get("reply", True))
    out = ["//! GENERATED by kani/gen_fixtures.py — do not edit.  Entry-point fixture `%s`: overridden = %s, migrate handler %s, reply handler %s." % (mod, ov or "none", has["migrate"], has["reply"]),
           "#![allow(unused_imports, unused_variables, dead_code, deprecated, clippy::all)]", "use crate::support::*;",
           "use cosmwasm_std::{Response, StdError, Binary, Empty, Deps, DepsMut, Env, MessageInfo, Reply, SubMsgResult};",
           "use sylvia::ctx::{ExecCtx, InstantiateCtx, MigrateCtx, QueryCtx, SudoCtx, ReplyCtx};", "",
           "pub mod ov {", "    use super::*;",
           "    #[derive(serde::Serialize, serde::Deserialize, Clone, Debug, PartialEq, schemars::JsonSchema)]", "    pub struct OvMsg {}"]
    for k in ov:
        ret = "Result<Binary, Echo>" if k == "query" else "Result<Response, Echo>"
        out.append("    pub fn %s(%s) -> %s { Err(Echo::Std) }" % (EP_FN[k], OV_PARAMS[k], ret))
    out += ["}", "", "pub struct %s;" % c, "", "#[sylvia::entry_points]", "#[sylvia::contract]", "#[sv::error(Echo)]", "#[sv::features(replies)]"]
    for k in ov:
        out.append("#[sv::override_entry_point(%s=ov::%s(%s))]" % (k, EP_FN[k], "ov::OvMsg" if k != "reply" else "cosmwasm_std::Reply"))
    out += ["impl %s {" % c, "    pub const fn new() -> Self { %s }" % c]

    def handler(kind, name, h, extra=""):
        ctx = {"instantiate": "InstantiateCtx", "exec": "ExecCtx", "query": "QueryCtx", "sudo": "SudoCtx", "migrate": "MigrateCtx", "reply": "ReplyCtx"}[kind]
        ret = "Result<u64, Echo>" if kind == "query" else "Result<Response, Echo>"
        store = "ctx.deps.storage.set(b\"k\", &[%d]);" % h if kind != "query" else "let _ = ctx.deps.storage.get(&[%d]);" % h
        attr = "#[sv::msg(%s)]" % kind if kind != "reply" else "#[sv::msg(reply, reply_on=error)]"
        params = ", a: u64" if kind != "reply" else ", error: String, #[sv::payload(raw)] payload: Binary"
        arg = "o.args[0] = a;" if kind != "reply" else "o.args[0] = ctx.gas_used;"
        return "    %s\n    fn %s(&self, ctx: %s%s) -> %s {\n        %s\n        let mut o = Obs::new(%d); %s o.height = ctx.env.block.height;\n        Err(Echo::H(o))\n    }" % (attr, name, ctx, params, ret, store, h, arg)
    out.append(handler("instantiate", "instantiate", 1))
    out.append(handler("exec", "do_exec", 2))
    out.append(handler("query", "do_query", 3))
    out.append(handler("sudo", "do_sudo", 4))
    if has["migrate"]:
        out.append(handler("migrate", "migrate", 5))
    if has["reply"]:
        out.append(handler("reply", "on_reply", 6))
    out += ["}", "", "// fallback names for the absence probes: with two glob imports a name is ambiguous (an error) iff both modules define it",
            "pub mod fallback {", "    pub fn instantiate() -> u8 { 0 }", "    pub fn execute() -> u8 { 0 }", "    pub fn query() -> u8 { 0 }", "    pub fn sudo() -> u8 { 0 }",
            "    pub fn migrate() -> u8 { 0 }", "    pub fn reply() -> u8 { 0 }", "}", "", "#[cfg(kani)]", "pub mod proofs {", "    use super::*;",
            "    use cosmwasm_std::{Addr, QuerierWrapper};", "    use std::cell::Cell;"]
    tier = fx.get("tier", "quick")
    present = [k for k in EP_KINDS if k not in ov and (k not in has or has[k])]
    absent = [k for k in EP_KINDS if k not in present]
    out += ["", "    #[allow(unused)]", "    fn t_obligations_%s() {" % mod]
    for k in present:
        name = "%s.T.ep_%s_present" % (mod, k)
        T_OBLIGATIONS.append(dict(name=name, feature=fx["feature"], props=["C06"], fixture=mod, tier=tier))
        out.append("        // T-BEGIN %s" % name)
        out.append("        let _: %s = entry_points::%s;" % (EP_SIG[k], EP_FN[k]))
        out.append("        // T-END %s" % name)
    for k in absent:
        name = "%s.T.ep_%s_absent" % (mod, k)
        T_OBLIGATIONS.append(dict(name=name, feature=fx["feature"], props=["C06"], fixture=mod, tier=tier))
        out.append("        // T-BEGIN %s" % name)
        out.append("        { use super::entry_points::*; use super::fallback::*; let _: fn() -> u8 = %s; }" % EP_FN[k])
        out.append("        // T-END %s" % name)
    out.append("    }")
    # forwarding of every remaining entry point
    for k in present:
        hn = {"instantiate": 1, "exec": 2, "query": 3, "sudo": 4, "migrate": 5, "reply": 6}[k]
        hname = "c06_%s_fwd_%s" % (mod, k)
        mut = k != "query"
        deps = ("let deps = DepsMut { storage: &mut s, api: &a, querier: QuerierWrapper::<Empty>::new(&q) };" if mut else "let deps = Deps { storage: &s, api: &a, querier: QuerierWrapper::<Empty>::new(&q) };")
        if k == "reply":
            msg = "Reply { id: sv::ON_REPLY_REPLY_ID, payload: Binary::default(), gas_used: x, result: SubMsgResult::Err(String::new()) }"
            call = "entry_points::reply(deps, env(h), msg)"
        else:
            lit = {"instantiate": "sv::InstantiateMsg { a: x }", "exec": "{ let w: sv::ContractExecMsg = sv::ExecMsg::DoExec { a: x }.into(); w }", "query": "{ let w: sv::ContractQueryMsg = sv::QueryMsg::DoQuery { a: x }.into(); w }",
                   "sudo": "{ let w: sv::ContractSudoMsg = sv::SudoMsg::DoSudo { a: x }.into(); w }", "migrate": "sv::MigrateMsg { a: x }"}[k]
            msg = lit
            call = "entry_points::%s(deps, env(h), %smsg)" % (EP_FN[k], "info(1), " if k in HAS_INFO else "")
        body = """
    #[kani::proof]
    #[kani::unwind(5)]
    %s
    fn %s() {
        let mut s = S(Cell::new(77)); let a = A(Cell::new(0)); let q = Q(Cell::new(0));
        let h: u64 = kani::any(); let x: u64 = kani::any();
        %s
        let msg = %s;
        let r = core::mem::ManuallyDrop::new(%s);
        match &*r { Err(Echo::H(o)) => assert!(o.h == %d && o.args[0] == x && o.height == h), _ => assert!(false) }
        assert!(s.0.get() == %d);
        kani::cover!(true, "end of harness reachable");
    }
""" % (STUBS, hname, deps, msg, call, hn, hn if mut else 1000 + hn)
        reg(hname, fx["feature"], ["C06"], tier, "with %s overridden, the generated %s entry point still builds the contract with new(), dispatches and returns the outcome" % (ov or "nothing", k), mod)
        out.append(body)
    out.append("}")
    return "\n".join(out)


def ep_fixtures():
    fxs = []

    def add(tag, ov, tier, **kw):
        fxs.append(dict(mod="fx_ep_" + tag, feature="g_ep", contract="Ep" + tag.title().replace("_", ""), override=ov, tier=tier, **kw))
    add("none", [], "quick")
    add("exec", ["exec"], "quick")
    add("query", ["query"], "quick")
    add("migrate", ["migrate"], "quick")
    add("all", list(EP_KINDS), "quick")
    add("instantiate", ["instantiate"], "thorough")
    add("sudo", ["sudo"], "thorough")
    add("reply", ["reply"], "quick")
    add("plain", [], "quick", migrate=False, reply=False)
    add("exec_sudo", ["exec", "sudo"], "thorough")
    # thorough only, own feature group: every PAIR of overridden kinds, and a few larger subsets
    import itertools
    for a, b in itertools.combinations(EP_KINDS, 2):
        if (a, b) == ("exec", "sudo"):
            continue
        fxs.append(dict(mod="fx_ep_%s_%s" % (a, b), feature="g_ep2", contract="Ep" + a.title() + b.title(), override=[a, b], tier="thorough"))
    for sub in (["instantiate", "exec", "query"], ["sudo", "migrate", "reply"], ["exec", "query", "sudo", "migrate"], ["instantiate", "query", "sudo", "migrate", "reply"]):
        fxs.append(dict(mod="fx_ep_" + "_".join(sub), feature="g_ep2", contract="Ep" + "".join(x.title() for x in sub), override=list(sub), tier="thorough"))
    return fxs



# ====================================================================== programs that MUST be rejected (C05, wiring of the overlap check)
def emit_overlap_fixture(which):
    """A contract one of whose parts shares a wire name with another part.  The build of this group must FAIL with the
    overlap panic of sylvia::utils::assert_no_intersection evaluated in the `const _` block of the wrapper's dispatch."""
    mod = "fx_overlap_" + which
    out = ["//! GENERATED by kani/gen_fixtures.py — do not edit.  `%s` MUST NOT compile: two parts publish the same name." % mod,
           "#![allow(unused_imports, unused_variables, dead_code)]", "use crate::support::*;", "use cosmwasm_std::{Response, StdError};",
           "use sylvia::ctx::{ExecCtx, InstantiateCtx, QueryCtx, SudoCtx};", ""]
    if which == "a":
        # contract [zeta, alpha] (declared out of order) vs interface [alpha, beta]: found only if the lists are sorted
        out += ["pub mod oi {", "    use super::*;", "    #[sylvia::interface]", "    #[sv::custom(msg=cosmwasm_std::Empty, query=cosmwasm_std::Empty)]", "    pub trait Oi {",
                "        type Error: From<StdError>;", "        #[sv::msg(exec)]", "        fn alpha(&self, ctx: ExecCtx) -> Result<Response, Self::Error>;",
                "        #[sv::msg(exec)]", "        fn beta(&self, ctx: ExecCtx) -> Result<Response, Self::Error>;", "    }", "}", "",
                "pub struct Ov;", "#[sylvia::contract]", "#[sv::error(Echo)]", "#[sv::messages(oi)]", "impl Ov {", "    pub const fn new() -> Self { Ov }",
                "    #[sv::msg(instantiate)]", "    fn instantiate(&self, ctx: InstantiateCtx) -> Result<Response, Echo> { Err(Echo::Std) }",
                "    #[sv::msg(exec)]", "    fn zeta(&self, ctx: ExecCtx) -> Result<Response, Echo> { Err(Echo::Std) }",
                "    #[sv::msg(exec)]", "    fn alpha(&self, ctx: ExecCtx) -> Result<Response, Echo> { Err(Echo::Std) }", "}",
                "impl oi::Oi for Ov {", "    type Error = Echo;", "    fn alpha(&self, ctx: ExecCtx) -> Result<Response, Echo> { Err(Echo::Std) }",
                "    fn beta(&self, ctx: ExecCtx) -> Result<Response, Echo> { Err(Echo::Std) }", "}"]
    else:
        # two interfaces sharing a sudo name, the contract itself has no sudo message
        for m, t in (("p1", "P1"), ("p2", "P2")):
            out += ["pub mod %s {" % m, "    use super::*;", "    #[sylvia::interface]", "    #[sv::custom(msg=cosmwasm_std::Empty, query=cosmwasm_std::Empty)]", "    pub trait %s {" % t,
                    "        type Error: From<StdError>;", "        #[sv::msg(sudo)]", "        fn shared_name(&self, ctx: SudoCtx, a: u64) -> Result<Response, Self::Error>;",
                    "        #[sv::msg(sudo)]", "        fn only_%s(&self, ctx: SudoCtx) -> Result<Response, Self::Error>;" % m, "    }", "}", ""]
        out += ["pub struct Ov;", "#[sylvia::contract]", "#[sv::error(Echo)]", "#[sv::messages(p1)]", "#[sv::messages(p2)]", "impl Ov {", "    pub const fn new() -> Self { Ov }",
                "    #[sv::msg(instantiate)]", "    fn instantiate(&self, ctx: InstantiateCtx) -> Result<Response, Echo> { Err(Echo::Std) }", "}"]
        for m, t in (("p1", "P1"), ("p2", "P2")):
            out += ["impl %s::%s for Ov {" % (m, t), "    type Error = Echo;", "    fn shared_name(&self, ctx: SudoCtx, a: u64) -> Result<Response, Echo> { Err(Echo::Std) }",
                    "    fn only_%s(&self, ctx: SudoCtx) -> Result<Response, Echo> { Err(Echo::Std) }" % m, "}"]
    T_OBLIGATIONS.append(dict(name="%s.T.rejected" % mod, feature="g_overlap_" + which, props=["C05", "C03"], fixture=mod, tier="quick", expect_reject="overlaps"))
    return mod, "g_overlap_" + which, "\n".join(out) + "\n"


if __name__ == "__main__":
    main()
