#!/usr/bin/env python3
"""Generates the fixture corpus and its Kani harnesses into kani/fixtures/src/gen/.

The table below is the ORACLE: expected wire names, field names, argument order and
handler numbers come from this table (i.e. from the method signatures we write),
never from what the macros emitted.  Output is deterministic.

Each harness is registered in gen/harnesses.json:
  {name, feature, props: [..], tier, clause, fixture}
"""
import json, os, sys, re

HERE = os.path.dirname(os.path.abspath(__file__))
OUT = os.environ.get("KX_OUT") or os.path.join(HERE, "fixtures", "src", "gen")
HARNESSES = []
T_OBLIGATIONS = []   # names of type-level obligations (markers inside generated files)

STUBS = "#[kani::stub(alloc::fmt::format, fmt_stub)]\n    #[kani::stub(std::backtrace::Backtrace::capture, bt_stub)]"
CTX = {"instantiate": "InstantiateCtx", "exec": "ExecCtx", "query": "QueryCtx", "sudo": "SudoCtx", "migrate": "MigrateCtx"}
KIND_MSG = {"instantiate": "InstantiateMsg", "exec": "ExecMsg", "query": "QueryMsg", "sudo": "SudoMsg", "migrate": "MigrateMsg"}
KIND_WRAP = {"exec": "ContractExecMsg", "query": "ContractQueryMsg", "sudo": "ContractSudoMsg"}
KIND_LIST = {"exec": "execute_messages", "query": "query_messages", "sudo": "sudo_messages"}
HAS_INFO = {"instantiate", "exec"}
MUT = {"instantiate", "exec", "sudo", "migrate"}


def camel(name):
    return "".join(w[:1].upper() + w[1:] for w in name.split("_") if w)


def reg(name, feature, props, tier, clause, fixture):
    HARNESSES.append(dict(name=name, feature=feature, props=props, tier=tier, clause=clause, fixture=fixture))


class M:
    """one handler method"""
    def __init__(self, kind, name, args=(), ret="err", h=None, attrs=(), argattrs=None, resp=None):
        self.kind, self.name, self.args, self.ret, self.h = kind, name, list(args), ret, h
        self.attrs = list(attrs)            # extra attributes on the method (e.g. sv::attr(..))
        self.argattrs = argattrs or {}      # arg name -> attribute text
        self.resp = resp

    def wire(self):
        return self.name


def handler_body(m, owner_kind, errty):
    """echo handler: counts the call, touches storage/api, reports args + ctx observations"""
    lines = ["self.calls.hit(%d);" % m.h]
    if m.kind in MUT:
        lines.append("ctx.deps.storage.set(b\"k\", &[%d]);" % m.h)
    else:
        lines.append("let _ = ctx.deps.storage.get(&[%d]);" % m.h)
    lines.append("ctx.deps.api.debug(\"abc\");")
    lines.append("let mut o = Obs::new(%d);" % m.h)
    for i, (a, t) in enumerate(m.args):
        lines.append("o.args[%d] = %s as u64;" % (i, a))
    lines.append("o.height = ctx.env.block.height;")
    if m.kind in HAS_INFO:
        lines.append("o.sender_len = ctx.info.sender.as_str().len() as u64;")
        lines.append("o.funds = ctx.info.funds.len() as u64;")
    if m.ret == "err":
        lines.append("Err(%s::H(o))" % errty)
    elif m.ret == "err_conv":
        # handler with its own error type: dispatch must convert it into the contract error (map_err(Into::into))
        lines.append("Err(IfaceErr::H(o))")
    elif m.ret == "ok":
        # Ok path: response carrying one data byte taken from the first argument
        lines.append("Ok(Response::new().set_data(vec![%s as u8]))" % m.args[0][0])
    elif m.ret == "query_ok":
        lines.append("Ok(%s)" % m.args[0][0])
    return "\n            ".join(lines)


def ret_type(m, errty, resp="Response"):
    if m.ret == "err_conv":
        errty = "IfaceErr"
    if m.kind == "query":
        return "Result<u64, %s>" % errty
    return "Result<%s, %s>" % (resp, errty)


def emit_iface(i):
    out = []
    out.append("pub mod %s {" % i["mod"])
    out.append("    use super::*;")
    out.append("    #[sylvia::interface]")
    out.append("    #[sv::custom(msg=cosmwasm_std::Empty, query=cosmwasm_std::Empty)]")
    for a in i.get("attrs", []):
        out.append("    " + a)
    out.append("    pub trait %s {" % i["trait"])
    out.append("        type Error: From<StdError>;")
    for m in i["methods"]:
        for a in m.attrs:
            out.append("        " + a)
        out.append("        #[sv::msg(%s)]" % m.kind)
        args = "".join(", %s%s: %s" % ((m.argattrs.get(a, "") + " ") if a in m.argattrs else "", a, t) for a, t in m.args)
        out.append("        fn %s(&self, ctx: %s%s) -> %s;" % (m.name, CTX[m.kind], args, ret_type(m, "Self::Error")))
    out.append("    }")
    out.append("}")
    return "\n".join(out)


def emit_iface_impl(i, contract):
    out = []
    out.append("impl %s::%s for %s {" % (i["mod"], i["trait"], contract))
    out.append("    type Error = %s;" % i["error"])
    for m in i["methods"]:
        args = "".join(", %s: %s" % (a, t) for a, t in m.args)
        out.append("    fn %s(&self, ctx: %s%s) -> %s {" % (m.name, CTX[m.kind], args, ret_type(m, i["error"])))
        out.append("            " + handler_body(m, "iface", i["error"]))
        out.append("    }")
    out.append("}")
    return "\n".join(out)


def any_decl(args, prefix="x"):
    return "\n        ".join("let %s%d: %s = kani::any();" % (prefix, k, t) for k, (a, t) in enumerate(args))


def ctor_fields(args, prefix="x"):
    return ", ".join("%s: %s%d" % (a, prefix, k) for k, (a, t) in enumerate(args))


def dispatch_harness(fx, m, msg_expr, hname, via, expect_h, props, tier, clause, errwrap="Echo"):
    """postcondition of dispatch for one variant"""
    mut = m.kind in MUT
    deps = ("let deps = DepsMut { storage: &mut s, api: &a, querier: QuerierWrapper::<Empty>::new(&q) };" if mut else
            "let deps = Deps { storage: &s, api: &a, querier: QuerierWrapper::<Empty>::new(&q) };")
    ctx = "(deps, env(h), info(sl))" if m.kind in HAS_INFO else "(deps, env(h))"
    checks = []
    if m.ret in ("err", "err_conv"):
        checks.append("match &*r {")
        checks.append("            Err(Echo::H(o)) => {")
        checks.append("                assert!(o.h == %d);" % expect_h)
        for k, (a, t) in enumerate(m.args):
            checks.append("                assert!(o.args[%d] == x%d as u64);" % (k, k))
        for k in range(len(m.args), 12):
            checks.append("                assert!(o.args[%d] == 0);" % k)
        checks.append("                assert!(o.height == h);")
        if m.kind in HAS_INFO:
            checks.append("                assert!(o.sender_len == sl as u64 && o.funds == 0);")
        checks.append("            }")
        checks.append("            _ => assert!(false),")
        checks.append("        }")
    elif m.ret == "ok":
        checks.append("match &*r {")
        checks.append("            Ok(resp) => {")
        checks.append("                assert!(resp.messages.is_empty() && resp.attributes.is_empty() && resp.events.is_empty());")
        checks.append("                match &resp.data { Some(d) => assert!(d.as_slice().len() == 1 && d.as_slice()[0] == x0 as u8), None => assert!(false) }")
        checks.append("            }")
        checks.append("            _ => assert!(false),")
        checks.append("        }")
    elif m.ret == "query_ok":
        # JSON encoding of the returned u64 (bounded to 2 digits to keep the decimal printer small)
        checks.append("match &*r {")
        checks.append("            Ok(bin) => {")
        checks.append("                let b = bin.as_slice();")
        checks.append("                if x0 < 10 { assert!(b.len() == 1 && b[0] == b'0' + x0 as u8); }")
        checks.append("                else { assert!(b.len() == 2 && b[0] == b'0' + (x0 / 10) as u8 && b[1] == b'0' + (x0 % 10) as u8); }")
        checks.append("            }")
        checks.append("            _ => assert!(false),")
        checks.append("        }")
    stor = "%d" % m.h if mut else "%d" % (1000 + m.h)
    pre = "kani::assume(x0 < 100);" if m.ret == "query_ok" else ""
    body = """
    #[kani::proof]
    #[kani::unwind(%(unw)d)]
    %(stubs)s
    fn %(hname)s() {
        let mut s = S(Cell::new(77)); let a = A(Cell::new(0)); let q = Q(Cell::new(0));
        let h: u64 = kani::any(); let sl: u8 = kani::any(); kani::assume(sl <= 2);
        %(anys)s
        %(pre)s
        let c = %(contract)s::new();
        %(deps)s
        let msg = %(msg)s;
        let r = core::mem::ManuallyDrop::new(msg.dispatch(&c, %(ctx)s));
        %(checks)s
        assert!(c.calls.only(%(h)d));
        assert!(s.0.get() == %(stor)s);
        assert!(a.0.get() == 4);
        kani::cover!(true, "end of harness reachable");
    }
""" % dict(unw=4, stubs=STUBS, hname=hname, anys=any_decl(m.args), pre=pre, contract=fx["contract"], deps=deps, msg=msg_expr, ctx=ctx,
           checks="\n        ".join(checks), h=m.h, stor=stor)
    reg(hname, fx["feature"], props, tier, clause, fx["mod"])
    return body


def shape_harness(fx, m, msg_path, hname, props, tier, wrapper=None, list_fn=None):
    """C01 recorder: variant = method name, fields = arg names in order, values = args; constructor = literal;
       C03(ii) wrapper transparent; C05 clause 2 / C03(i): wire name is in the published list."""
    enum = m.kind in KIND_WRAP
    lit = "%s::%s { %s }" % (msg_path, camel(m.name), ctor_fields(m.args)) if enum else "%s { %s }" % (msg_path, ctor_fields(m.args))
    lines = []
    lines.append("let m = %s;" % lit)
    lines.append("let sh = m.serialize(rec::Rec).unwrap();")
    if enum:
        lines.append("assert!(sh.kind == 2);")
        lines.append("assert!(sh.variant == \"%s\");" % m.wire())
    else:
        lines.append("assert!(sh.kind == 1);")
    lines.append("assert!(sh.n == %d && sh.declared_len == %d && sh.skipped == 0);" % (len(m.args), len(m.args)))
    for k, (a, t) in enumerate(m.args):
        lines.append("assert!(sh.keys[%d] == \"%s\" && sh.vals[%d] == x%d as u64);" % (k, a, k, k))
    # constructor builds the same value as the literal
    if enum:
        ctor = "%s::%s(%s)" % (msg_path, m.name, ", ".join("x%d" % k for k in range(len(m.args))))
    else:
        ctor = "%s::new(%s)" % (msg_path, ", ".join("x%d" % k for k in range(len(m.args))))
    if fx.get("check_ctor", True):
        lines.append("let m2 = %s;" % ctor)
        lines.append("assert!(m2 == m);")
    if wrapper:
        lines.append("let w: %s = m.into();" % wrapper)
        lines.append("let shw = w.serialize(rec::Rec).unwrap();")
        lines.append("assert!(shw.kind == 2 && shw.variant == sh.variant && shw.n == sh.n);")
        for k in range(len(m.args)):
            lines.append("assert!(shw.keys[%d] == sh.keys[%d] && shw.vals[%d] == sh.vals[%d]);" % (k, k, k, k))
    if list_fn:
        lines.append("let list = %s();" % list_fn)
        lines.append("let mut found = false; let mut i = 0;")
        lines.append("while i < list.len() { if list[i] == sh.variant { found = true; } i += 1; }")
        lines.append("assert!(found);")
    body = """
    #[kani::proof]
    #[kani::unwind(34)]
    fn %s() {
        use serde::Serialize;
        %s
        %s
        kani::cover!(true, "end of harness reachable");
    }
""" % (hname, any_decl(m.args), "\n        ".join(lines))
    reg(hname, fx["feature"], props, tier, "wire shape via recording Serializer", fx["mod"])
    return body


def list_harness(fx, kind, msg_path_prefix, methods, hname, props, tier):
    """C05 clause 2: the published list is strictly sorted, has one entry per method and equals the method names"""
    names = sorted(m.wire() for m in methods)
    fn = "%s%s" % (msg_path_prefix, KIND_LIST[kind])
    lines = ["let list = %s();" % fn, "assert!(list.len() == %d);" % len(names)]
    for k, n in enumerate(names):
        lines.append("assert!(list[%d] == \"%s\");" % (k, n))
    lines.append("let mut i = 1; while i < list.len() { assert!(list[i - 1].as_bytes() < list[i].as_bytes()); i += 1; }")
    body = """
    #[kani::proof]
    #[kani::unwind(40)]
    fn %s() {
        %s
        kani::cover!(true, "end of harness reachable");
    }
""" % (hname, "\n        ".join(lines))
    reg(hname, fx["feature"], props, tier, "published name list is strictly sorted and equals the set of wire names (oracle: the method names in the generator table)", fx["mod"])
    return body


def decode_harness(fx, kind, msg_path, methods, m, hname, props, tier, keylen=12):
    """C01 script (a): Msg::deserialize({<own name>: {fields of m}}) is Ok(V_m{args}) with equal values."""
    enum = kind in KIND_WRAP
    fields = ", ".join("(\"%s\", script::Sv::U(x%d as u64))" % (a, k) for k, (a, t) in enumerate(m.args))
    lines = []
    lines.append("let fields: [(&str, script::Sv); %d] = [%s];" % (len(m.args), fields))
    if enum:
        lines.append("let r = %s::deserialize(script::ED { key: \"%s\", fields: &fields });" % (msg_path, m.wire()))
        pat = "%s::%s { %s }" % (msg_path, camel(m.name), ", ".join("%s: y%d" % (a, k) for k, (a, t) in enumerate(m.args)))
    else:
        lines.append("let r = %s::deserialize(script::MA { fields: &fields, i: 0 });" % msg_path)
        pat = "%s { %s }" % (msg_path, ", ".join("%s: y%d" % (a, k) for k, (a, t) in enumerate(m.args)))
    eqs = " && ".join(["y%d == x%d" % (k, k) for k in range(len(m.args))] or ["true"])
    lines.append("match r { Ok(%s) => assert!(%s), _ => assert!(false) }" % (pat, eqs))
    body = """
    #[kani::proof]
    #[kani::unwind(%d)]
    fn %s() {
        use serde::Deserialize;
        %s
        %s
        kani::cover!(true, "end of harness reachable");
    }
""" % (keylen + 4, hname, any_decl(m.args), "\n        ".join(lines))
    reg(hname, fx["feature"], props, tier, "own wire name + own fields decodes back to an equal message (scripted self-describing Deserializer)", fx["mod"])
    return body


def names_harnesses(fx, kind, msg_path, methods, hprefix, props, tier, maxlen=12):
    """C01/C04 script (b): for EVERY ASCII key of length L (one harness per L, content symbolic) presented with the
       union of all field names, the message type decodes to variant i only if key == name_i (wildcard-free match:
       also the exact variant set) and rejects exactly the keys that are not one of its methods' names."""
    out = []
    for L in range(0, maxlen + 1):
        hname = "%s_len%d" % (hprefix, L)
        # fields offered: union of the fields of the methods whose name has this length (so that those names are
        # accepted and the Ok side is exercised), capped at 4 entries: CBMC cost grows with variants x fields
        union = []
        for m in methods:
            if len(m.wire()) == L:
                for a, t in m.args:
                    if a not in union:
                        union.append(a)
        full = len(union) <= 4
        if not full:
            union = []
        fields = ", ".join("(\"%s\", script::Sv::U(v as u64))" % a for a in union)
        arms = []
        for m in methods:
            arms.append("Ok(%s::%s { .. }) => { assert!(key == \"%s\"); }" % (msg_path, camel(m.name), m.wire()))
        names_l = [m.wire() for m in methods if len(m.wire()) == L and (full or not m.args)]
        errc = " && ".join("key != \"%s\"" % n for n in names_l) or "true"
        arms.append("Err(_) => { assert!(%s); }" % errc)
        body = """
    #[kani::proof]
    #[kani::unwind(%d)]
    fn %s() {
        use serde::Deserialize;
        let bytes: [u8; %d] = kani::any();
        let mut i = 0; while i < %d { kani::assume(bytes[i] < 128); i += 1; }
        let key = unsafe { std::str::from_utf8_unchecked(&bytes) };
        let v: u8 = kani::any();
        let fields: [(&str, script::Sv); %d] = [%s];
        let r = %s::deserialize(script::ED { key, fields: &fields });
        match r {
            %s
        }
        kani::cover!(true, "end of harness reachable");
    }
""" % (max(L, 2) + 2, hname, L, L, len(union), fields, msg_path, "\n            ".join(arms))
        has_name = any(len(m.wire()) == L for m in methods)
        reg(hname, fx["feature"], props, tier if (has_name or L in (0, 5)) else "thorough", "every ASCII key of length %d: accepted iff it is a method name of this kind, and decodes to that method's variant" % L, fx["mod"])
        out.append(body)
    return "\n".join(out)


def cross_kind_decode_harness(fx, k1m, k2, k2_path, k2_methods, hname, props, tier, keylen=12):
    """C04 script: the message type of kind K2 does not accept the name of a K1-only method"""
    if any(o.wire() == k1m.wire() for o in k2_methods):
        return ""
    fields = ", ".join("(\"%s\", script::Sv::U(x%d as u64))" % (a, k) for k, (a, t) in enumerate(k1m.args))
    body = """
    #[kani::proof]
    #[kani::unwind(%d)]
    fn %s() {
        use serde::Deserialize;
        %s
        let fields: [(&str, script::Sv); %d] = [%s];
        let r = %s::deserialize(script::ED { key: "%s", fields: &fields });
        assert!(r.is_err());
        kani::cover!(true, "end of harness reachable");
    }
""" % (keylen + 4, hname, any_decl(k1m.args), len(k1m.args), fields, k2_path, k1m.wire())
    reg(hname, fx["feature"], props, tier, "a %s-only name is rejected by the %s message type" % (k1m.kind, k2), fx["mod"])
    return body


def emit_contract_fixture(fx):
    """non-generic contract with optional interfaces"""
    out = []
    out.append("//! GENERATED by kani/gen_fixtures.py — do not edit.  Fixture `%s`." % fx["mod"])
    out.append("#![allow(unused_imports, unused_variables, dead_code, clippy::all)]")
    out.append("use crate::support::*;")
    out.append("use cosmwasm_std::{Response, StdError, Binary, Empty};")
    out.append("use sylvia::ctx::{ExecCtx, InstantiateCtx, MigrateCtx, QueryCtx, SudoCtx, ReplyCtx};")
    out.append("")
    for i in fx.get("interfaces", []):
        out.append(emit_iface(i))
        out.append("")
    c = fx["contract"]
    out.append("pub struct %s { pub calls: Calls }" % c)
    out.append("")
    if fx.get("entry_points"):
        out.append("#[sylvia::entry_points]")
    out.append("#[sylvia::contract]")
    out.append("#[sv::error(Echo)]")
    for a in fx.get("attrs", []):
        out.append(a)
    for i in fx.get("interfaces", []):
        out.append("#[sv::messages(%s%s)]" % (i["mod"], i.get("attach", "")))
    out.append("impl %s {" % c)
    out.append("    pub const fn new() -> Self { %s { calls: Calls::new() } }" % c)
    for m in fx["methods"]:
        if m.kind == "helper":
            out.append("    pub fn %s(&self) -> u64 { 42 }" % m.name)
            continue
        for a in m.attrs:
            out.append("    " + a)
        out.append("    #[sv::msg(%s)]" % m.kind)
        args = "".join(", %s%s: %s" % ((m.argattrs[a] + " ") if a in m.argattrs else "", a, t) for a, t in m.args)
        out.append("    fn %s(&self, ctx: %s%s) -> %s {" % (m.name, CTX[m.kind], args, ret_type(m, "Echo")))
        out.append("            " + handler_body(m, "contract", "Echo"))
        out.append("    }")
    out.append("}")
    out.append("")
    for i in fx.get("interfaces", []):
        out.append(emit_iface_impl(i, c))
        out.append("")

    # ---------------- proofs
    out.append("#[cfg(kani)]")
    out.append("pub mod proofs {")
    out.append("    use super::*;")
    out.append("    use cosmwasm_std::{Addr, Deps, DepsMut, QuerierWrapper, Env, MessageInfo};")
    out.append("    use std::cell::Cell;")
    mod = fx["mod"]
    tier = fx.get("tier", "quick")
    methods = [m for m in fx["methods"] if m.kind != "helper"]
    bykind = {}
    for m in methods:
        bykind.setdefault(m.kind, []).append(m)
    perm = fx.get("perm_of")
    p_extra = ["C14"] if perm else []
    for m in methods:
        msgp = "sv::%s" % KIND_MSG[m.kind]
        enum = m.kind in KIND_WRAP
        lit = "%s::%s { %s }" % (msgp, camel(m.name), ctor_fields(m.args)) if enum else "%s { %s }" % (msgp, ctor_fields(m.args))
        # C02 direct dispatch
        out.append(dispatch_harness(fx, m, lit, "c02_%s_%s_%s" % (mod, m.kind, m.name), "direct", m.h + (100 if m.ret == "err_conv" else 0), ["C02", "C04"] + p_extra, tier,
                                    "dispatch postcondition: exactly this handler once, args by name, ctx unchanged, own outcome"))
        # C02/C03 via the contract-level wrapper
        if enum:
            wl = "{ let w: sv::%s = %s.into(); w }" % (KIND_WRAP[m.kind], lit)
            out.append(dispatch_harness(fx, m, wl, "c03_%s_wrap_%s_%s" % (mod, m.kind, m.name), "wrapper", m.h + (100 if m.ret == "err_conv" else 0), ["C02", "C03", "C04"] + p_extra, tier,
                                        "contract-level wrapper routes to the same handler"))
        # C01 / C03 / C05 shapes (only for err-returning scalars; all fixtures use scalar args)
        out.append(shape_harness(fx, m, msgp, "c01_%s_shape_%s_%s" % (mod, m.kind, m.name), ["C01", "C03", "C05"] + p_extra if enum else ["C01"] + p_extra, tier,
                                 wrapper=("sv::%s" % KIND_WRAP[m.kind]) if enum else None,
                                 list_fn=("sv::%s" % KIND_LIST[m.kind]) if enum else None))
        out.append(decode_harness(fx, m.kind, msgp, bykind[m.kind], m, "c01_%s_decode_%s_%s" % (mod, m.kind, m.name), ["C01", "C04"] + p_extra, tier))
    for kind, ms in bykind.items():
        if kind in KIND_LIST:
            out.append(list_harness(fx, kind, "sv::", ms, "c05_%s_list_%s" % (mod, kind), ["C05", "C03"] + p_extra, tier))
            out.append(names_harnesses(fx, kind, "sv::%s" % KIND_MSG[kind], ms, "c01_%s_names_%s" % (mod, kind), ["C01", "C04"] + p_extra, tier))
    # C04: K1-only names into K2 message types (thorough: every ordered pair)
    for k1, ms1 in bykind.items():
        for k2, ms2 in bykind.items():
            if k1 == k2 or k2 not in KIND_WRAP:
                continue
            m = ms1[0]
            out.append(cross_kind_decode_harness(fx, m, k2, "sv::%s" % KIND_MSG[k2], ms2, "c04_%s_cross_%s_into_%s" % (mod, k1, k2), ["C04"], "thorough" if fx.get("cross_thorough", True) and not (k1 == "exec" and k2 == "query") and not (k1 == "query" and k2 == "exec") and not (k1 == "sudo" and k2 == "exec") else tier))
    # interfaces
    for i in fx.get("interfaces", []):
        ib = {}
        for m in i["methods"]:
            ib.setdefault(m.kind, []).append(m)
        for m in i["methods"]:
            msgp = "%s::sv::%s" % (i["mod"], KIND_MSG[m.kind])
            lit = "%s::%s { %s }" % (msgp, camel(m.name), ctor_fields(m.args))
            eh = m.h + (100 if i["error"] == "IfaceErr" else 0)
            wl = "{ let w: sv::%s = %s.into(); w }" % (KIND_WRAP[m.kind], lit)
            # the handler number seen by the caller is shifted by the error conversion when the interface has its own error type
            mm = M(m.kind, m.name, m.args, m.ret, m.h)
            body = dispatch_harness(fx, mm, wl, "c03_%s_wrap_%s_%s_%s" % (mod, i["mod"], m.kind, m.name), "wrapper", eh, ["C02", "C03", "C04"] + p_extra, tier,
                                    "contract-level wrapper routes an interface message to the interface handler; interface error converted into the contract error")
            out.append(body)
            out.append(shape_harness(fx, m, msgp, "c01_%s_shape_%s_%s_%s" % (mod, i["mod"], m.kind, m.name), ["C01", "C03", "C05"] + p_extra, tier,
                                     wrapper="sv::%s" % KIND_WRAP[m.kind], list_fn="%s::sv::%s" % (i["mod"], KIND_LIST[m.kind])))
            out.append(decode_harness(fx, m.kind, msgp, ib[m.kind], m, "c01_%s_decode_%s_%s_%s" % (mod, i["mod"], m.kind, m.name), ["C01", "C04"] + p_extra, "thorough"))
        for kind, ms in ib.items():
            out.append(list_harness(fx, kind, "%s::sv::" % i["mod"], ms, "c05_%s_list_%s_%s" % (mod, i["mod"], kind), ["C05", "C03"] + p_extra, tier))
            out.append(names_harnesses(fx, kind, "%s::sv::%s" % (i["mod"], KIND_MSG[kind]), ms, "c01_%s_names_%s_%s" % (mod, i["mod"], kind), ["C01", "C04"] + p_extra, "thorough"))
    # entry points: forwarding + T obligations
    if fx.get("entry_points"):
        for m in methods:
            if m.ret != "err":
                continue
            if m.kind in ("exec", "query", "sudo") and m is not bykind[m.kind][0]:
                continue
            out.append(entry_point_harness(fx, m, tier))
    out.append(t_obligations(fx, bykind))
    out.append("}")
    return "\n".join(out)


def entry_point_harness(fx, m, tier):
    mod = fx["mod"]
    mut = m.kind in MUT
    enum = m.kind in KIND_WRAP
    msgp = "sv::%s" % KIND_MSG[m.kind]
    lit = "%s::%s { %s }" % (msgp, camel(m.name), ctor_fields(m.args)) if enum else "%s { %s }" % (msgp, ctor_fields(m.args))
    if enum:
        lit = "{ let w: sv::%s = %s.into(); w }" % (KIND_WRAP[m.kind], lit)
    deps = ("let deps = DepsMut { storage: &mut s, api: &a, querier: QuerierWrapper::<Empty>::new(&q) };" if mut else
            "let deps = Deps { storage: &s, api: &a, querier: QuerierWrapper::<Empty>::new(&q) };")
    epname = {"exec": "execute"}.get(m.kind, m.kind)
    call = "entry_points::%s(deps, env(h), %smsg)" % (epname, "info(sl), " if m.kind in HAS_INFO else "")
    checks = ["match &*r {", "            Err(Echo::H(o)) => {", "                assert!(o.h == %d);" % m.h]
    for k, (a, t) in enumerate(m.args):
        checks.append("                assert!(o.args[%d] == x%d as u64);" % (k, k))
    checks.append("                assert!(o.height == h);")
    if m.kind in HAS_INFO:
        checks.append("                assert!(o.sender_len == sl as u64);")
    checks += ["            }", "            _ => assert!(false),", "        }"]
    stor = "%d" % m.h if mut else "%d" % (1000 + m.h)
    hname = "c06_%s_ep_%s" % (mod, m.kind)
    body = """
    #[kani::proof]
    #[kani::unwind(4)]
    %s
    fn %s() {
        let mut s = S(Cell::new(77)); let a = A(Cell::new(0)); let q = Q(Cell::new(0));
        let h: u64 = kani::any(); let sl: u8 = kani::any(); kani::assume(sl <= 2);
        %s
        %s
        let msg = %s;
        let r = core::mem::ManuallyDrop::new(%s);
        %s
        assert!(s.0.get() == %s);
        assert!(a.0.get() == 4);
        kani::cover!(true, "end of harness reachable");
    }
""" % (STUBS, hname, any_decl(m.args), deps, lit, call, "\n        ".join(checks), stor)
    reg(hname, fx["feature"], ["C06", "C04"], tier, "entry point builds the contract with new(), dispatches the message with the given deps/env/info and returns the outcome", fx["mod"])
    return body


def t_obligations(fx, bykind):
    """type-level obligations, discharged by rustc while the crate is compiled.  Each sits between markers."""
    mod = fx["mod"]
    c = fx["contract"]
    out = ["", "    // ---- type-level obligations (T) ----", "    #[allow(unreachable_code, unused)]", "    fn t_obligations_%s() {" % mod,
           "        use sylvia::types::{ContractApi, InterfaceApi};", "        fn same<X, Y>() where X: Same<Y> {} trait Same<Y> {} impl<X> Same<X> for X {}"]

    def t(name, code, props):
        full = "%s.T.%s" % (mod, name)
        T_OBLIGATIONS.append(dict(name=full, feature=fx["feature"], props=props, fixture=mod, tier=fx.get("tier", "quick")))
        out.append("        // T-BEGIN %s" % full)
        out.append("        " + code)
        out.append("        // T-END %s" % full)
    p_extra = ["C14"] if fx.get("perm_of") else []
    for kind, ms in bykind.items():
        if kind in KIND_WRAP:
            # exact variant set of the message type: wildcard-free exhaustive match
            arms = " ".join("sv::%s::%s { .. } => {}" % (KIND_MSG[kind], camel(m.name)) for m in ms)
            t("%s_variants_exact" % kind, "{ fn f(m: sv::%s) { match m { %s } } }" % (KIND_MSG[kind], arms), ["C01", "C04"] + p_extra)
    ifs = fx.get("interfaces", [])
    for kind in KIND_WRAP:
        has_own = kind in bykind
        parts = []
        if not fx.get("wrapper_always", True) and not has_own and not any(any(m.kind == kind for m in i["methods"]) for i in ifs):
            continue
        arms = []
        for i in ifs:
            arms.append("sv::%s::%s(_) => {}" % (KIND_WRAP[kind], i["trait"]))
        arms.append("sv::%s::%s(_) => {}" % (KIND_WRAP[kind], c))
        t("%s_wrapper_parts_exact" % kind, "{ fn f(m: sv::%s) { match m { %s } } }" % (KIND_WRAP[kind], " ".join(arms)), ["C03", "C04"] + p_extra)
    if fx.get("entry_points"):
        sigs = {
            "instantiate": "fn(DepsMut, Env, MessageInfo, sv::InstantiateMsg) -> Result<Response, Echo> = entry_points::instantiate",
            "exec": "fn(DepsMut, Env, MessageInfo, sv::ContractExecMsg) -> Result<Response, Echo> = entry_points::execute",
            "query": "fn(Deps, Env, sv::ContractQueryMsg) -> Result<Binary, Echo> = entry_points::query",
            "sudo": "fn(DepsMut, Env, sv::ContractSudoMsg) -> Result<Response, Echo> = entry_points::sudo",
        }
        if "migrate" in bykind:
            sigs["migrate"] = "fn(DepsMut, Env, sv::MigrateMsg) -> Result<Response, Echo> = entry_points::migrate"
        for k, s in sigs.items():
            t("ep_%s_signature" % k, "let _: %s;" % s, ["C06", "C04"] + p_extra)
        t("api_exec_is_wrapper", "same::<<%s as ContractApi>::ContractExec, sv::ContractExecMsg>();" % c, ["C04"])
        t("api_query_is_wrapper", "same::<<%s as ContractApi>::ContractQuery, sv::ContractQueryMsg>();" % c, ["C04"])
        t("api_sudo_is_wrapper", "same::<<%s as ContractApi>::ContractSudo, sv::ContractSudoMsg>();" % c, ["C04"])
    out.append("    }")
    return "\n".join(out)


# ------------------------------------------------------------------ the corpus
U = "u64"


def number(methods, start=1):
    h = start
    for m in methods:
        if m.kind != "helper" and m.h is None:
            m.h = h
            h += 1
    return methods


def fx_basic(perm=False):
    ms = [
        M("exec", "zeta", []),                                   # arity 0, declared first, alphabetically last
        M("instantiate", "instantiate", [("owner", U), ("cap", "u32")]),
        M("exec", "transfer", [("src", U), ("dst", U)]),         # two same-typed args: swap detection
        M("exec", "approve", [("src", U), ("dst", U)]),          # identical signature to transfer
        M("helper", "helper_without_msg"),
        M("query", "balance_of", [("who", U)]),
        M("query", "total_supply", [("at", U)], ret="query_ok"),
        M("exec", "batch_op", [("p%d" % k, U) for k in range(1, 12)]),   # 11 parameters: positional binding beyond field9
        M("sudo", "set_params", [("max_len", "u32"), ("fee", U), ("flag", "u8")]),
        M("sudo", "halt", []),
        M("migrate", "migrate", [("version", "u32")]),
        M("exec", "finish", [("code", "u8")], ret="ok"),         # Ok path: handler's response untouched
        M("exec", "convert_err", [("a", U)], ret="err_conv"),    # handler error type != contract error type: converted by Into
    ]
    number(ms)
    if perm:
        ms = list(reversed(ms))
    return dict(mod="fx_basic_perm" if perm else "fx_basic", feature="g_basic", contract="BasicP" if perm else "Basic", methods=ms, entry_points=True,
                perm_of="fx_basic" if perm else None, tier="thorough" if perm else "quick")


def fx_multi(perm=False):
    ia = dict(mod="ia", trait="Ia", error="Echo", methods=number([
        M("exec", "ia_exec", [("a", U)]),
        M("sudo", "shape_twin", [("a", U), ("b", U)]),      # same argument shape as the contract exec `shape_twin_c`
        M("query", "ia_query", [("a", U)]),
    ], 10))
    ib = dict(mod="ib", trait="Ib", error="Echo", methods=number([
        M("exec", "ib_exec", [("n", "u32"), ("m", U)]),
        M("query", "ib_query", []),
    ], 20))
    ms = number([
        M("instantiate", "instantiate", []),
        M("exec", "shape_twin_c", [("a", U), ("b", U)]),
        M("exec", "ia", [("a", U)]),                         # prefix of the interface method name `ia_exec`
        M("sudo", "ia_exec_sudo", [("a", U)]),               # shares a prefix with an exec of another kind
        M("query", "own_query", [("a", U)]),
    ])
    ifs = [ia, ib]
    if perm:
        ifs = [ib, ia]
        ms = list(reversed(ms))
        for i in ifs:
            i["methods"] = list(reversed(i["methods"]))
    return dict(mod="fx_multi_perm" if perm else "fx_multi", feature="g_multi", contract="MultiP" if perm else "Multi", methods=ms, interfaces=ifs, entry_points=True,
                perm_of="fx_multi" if perm else None, tier="thorough" if perm else "quick")


def fx_digits():
    # names from C03's wider quantifier (digit-bearing); separate feature group (DESIGN.md §5 item 2)
    ms = number([
        M("instantiate", "instantiate", []),
        M("exec", "step2", [("amount", U), ("who", U)]),
        M("exec", "mint_v2_now", [("n", U)]),
        M("query", "level3", [("a", U)]),
    ])
    return dict(mod="fx_digits", feature="g_digits", contract="Digits", methods=ms, entry_points=False, tier="quick", check_ctor=False)


def main():
    os.makedirs(OUT, exist_ok=True)
    written = set()

    def put(name, text):
        # write only when changed: keeps cargo's incremental build warm
        p = os.path.join(OUT, name)
        written.add(name)
        if not os.path.exists(p) or open(p).read() != text:
            open(p, "w").write(text)
    mods = []
    for fx in [fx_basic(), fx_basic(True), fx_multi(), fx_multi(True), fx_digits()]:
        src = emit_contract_fixture(fx)
        put(fx["mod"] + ".rs", src + "\n")
        mods.append((fx["mod"], fx["feature"]))
    t = "//! GENERATED by kani/gen_fixtures.py — do not edit.\n"
    for m, feat in mods:
        t += "#[cfg(feature = \"%s\")]\npub mod %s;\n" % (feat, m)
    put("mod.rs", t)
    put("harnesses.json", json.dumps(dict(harnesses=HARNESSES, t_obligations=T_OBLIGATIONS), indent=1))
    for f in os.listdir(OUT):
        if f not in written:
            os.remove(os.path.join(OUT, f))
    print("generated %d fixtures, %d harnesses, %d T obligations" % (len(mods), len(HARNESSES), len(T_OBLIGATIONS)))


if __name__ == "__main__":
    main()
