//! Kernel crate (KT, DESIGN.md §2.3): finite tables / boolean functions lifted VERBATIM out of
//! sylvia-derive by `vx-extract lift-*` on every run.  Only this shim prelude and the proofs are
//! hand-written.  `//@LIFT <kind> <file> <path> [nth] [replacement]` lines are replaced by source bytes.
#![allow(dead_code, unused_variables, clippy::all)]
// ---- shim prelude: what is dropped by lifting ----
pub struct Error;
impl Error {
    pub fn new<T>(_: T, _: &str) -> Self {
        Error
    }
}
pub type Result<T> = std::result::Result<T, Error>;
pub trait SpanShim {
    fn span(&self) {}
}
impl SpanShim for &str {}
impl SpanShim for &&str {}
pub type Ident = &'static str;
pub type Type = &'static str;
// `parse_quote!{X}` -> the token text of X
macro_rules! parse_quote { ($($t:tt)*) => { stringify!($($t)*) } }

#[derive(PartialEq, Eq, Debug, Clone, Copy)]
//@LIFT item sylvia-derive/src/parser/attributes/msg.rs MsgType

impl MsgType {
    pub fn new(msg_type: &str) -> Result<Self> {
        //@LIFT match sylvia-derive/src/types/msg_type.rs MsgType::new 1 msg_type
    }
    //@LIFT fn sylvia-derive/src/types/msg_type.rs MsgType::emit_ep_name
    //@LIFT fn sylvia-derive/src/types/msg_type.rs MsgType::emit_msg_wrapper_name
    //@LIFT fn sylvia-derive/src/types/msg_type.rs MsgType::emit_msg_name
    //@LIFT fn sylvia-derive/src/types/msg_type.rs MsgType::as_accessor_wrapper_name
    //@LIFT fn sylvia-derive/src/types/msg_type.rs MsgType::as_accessor_name
}

pub fn forwarding_kind(msg_type: &str) -> Result<MsgType> {
    let r =
        //@LIFT match sylvia-derive/src/parser/attributes/attr.rs Parse_for_MsgAttrForwarding::parse 1 msg_type
    ;
    Ok(r)
}

pub fn override_kind(ty: &str) -> Result<MsgType> {
    let r =
        //@LIFT match sylvia-derive/src/parser/attributes/override_entry_point.rs Parse_for_OverrideEntryPoint::parse 1 ty
    ;
    Ok(r)
}

#[derive(Copy, Debug, Clone, PartialEq)]
//@LIFT item sylvia-derive/src/parser/attributes/msg.rs ReplyOn

impl ReplyOn {
    pub fn new(reply_on: &str) -> Result<Self> {
        //@LIFT match sylvia-derive/src/parser/attributes/msg.rs ReplyOn::new 1 reply_on
    }
    //@LIFT fn sylvia-derive/src/parser/attributes/msg.rs ReplyOn::excludes
}

#[derive(Clone, Copy, Debug, PartialEq)]
//@LIFT item sylvia-derive/src/parser/attributes/mod.rs SylviaAttribute

impl SylviaAttribute {
    pub fn match_attribute(name: &str) -> Option<Self> {
        //@LIFT match sylvia-derive/src/parser/attributes/mod.rs SylviaAttribute::match_attribute 1 name
    }
}

#[cfg(kani)]
mod proofs {
    use super::*;

    fn any_ascii<const N: usize>(buf: &mut [u8; N]) -> &str {
        let bytes: [u8; N] = kani::any();
        let len: usize = kani::any();
        kani::assume(len <= N);
        let mut i = 0;
        while i < N {
            kani::assume(bytes[i] < 128);
            i += 1;
        }
        *buf = bytes;
        unsafe { std::str::from_utf8_unchecked(&buf[..len]) }
    }
    const KINDS: [MsgType; 6] = [MsgType::Exec, MsgType::Query, MsgType::Instantiate, MsgType::Migrate, MsgType::Reply, MsgType::Sudo];

    /// the documented table of `#[sv::msg(kind)]`
    fn documented(s: &str) -> Option<MsgType> {
        if s == "exec" { Some(MsgType::Exec) }
        else if s == "query" { Some(MsgType::Query) }
        else if s == "instantiate" { Some(MsgType::Instantiate) }
        else if s == "migrate" { Some(MsgType::Migrate) }
        else if s == "reply" { Some(MsgType::Reply) }
        else if s == "sudo" { Some(MsgType::Sudo) }
        else { None }
    }

    #[kani::proof]
    #[kani::unwind(26)]
    fn kt_msg_type_new_is_documented_table() {
        let mut buf = [0u8; 24];
        let s = any_ascii::<24>(&mut buf);
        assert!(MsgType::new(s).ok() == documented(s));
        kani::cover!(MsgType::new(s).is_ok(), "some kind accepted");
    }

    #[kani::proof]
    #[kani::unwind(26)]
    fn kt_forwarding_table_equals_msg_table() {
        let mut buf = [0u8; 24];
        let s = any_ascii::<24>(&mut buf);
        assert!(forwarding_kind(s).ok() == MsgType::new(s).ok());
        kani::cover!(forwarding_kind(s).is_ok(), "some kind accepted");
    }

    #[kani::proof]
    #[kani::unwind(26)]
    fn kt_override_table_equals_msg_table() {
        let mut buf = [0u8; 24];
        let s = any_ascii::<24>(&mut buf);
        assert!(override_kind(s).ok() == MsgType::new(s).ok());
        kani::cover!(override_kind(s).is_ok(), "some kind accepted");
    }

    fn same(a: &str, b: &str) -> bool {
        a.as_bytes() == b.as_bytes()
    }

    #[kani::proof]
    #[kani::unwind(20)]
    fn kt_kind_names() {
        // documented names; injective on kinds; wrapper differs from plain exactly for exec/query/sudo
        let k = KINDS;
        let ep = ["execute", "query", "instantiate", "migrate", "reply", "sudo"];
        let msg = ["ExecMsg", "QueryMsg", "InstantiateMsg", "MigrateMsg", "ReplyMsg", "SudoMsg"];
        let wrap = ["ContractExecMsg", "ContractQueryMsg", "InstantiateMsg", "MigrateMsg", "ReplyMsg", "ContractSudoMsg"];
        let acc = ["Exec", "Query", "Instantiate", "Migrate", "Reply", "Sudo"];
        let accw = ["ContractExec", "ContractQuery", "Instantiate", "Migrate", "Reply", "ContractSudo"];
        let i: usize = kani::any();
        kani::assume(i < 6);
        assert!(same(k[i].emit_ep_name(), ep[i]));
        assert!(same(k[i].emit_msg_name(), msg[i]));
        assert!(same(k[i].emit_msg_wrapper_name(), wrap[i]));
        assert!(same(k[i].as_accessor_name(), acc[i]));
        assert!(same(k[i].as_accessor_wrapper_name(), accw[i]));
        let j: usize = kani::any();
        kani::assume(j < 6 && j != i);
        assert!(!same(k[i].emit_ep_name(), k[j].emit_ep_name()));
        assert!(!same(k[i].emit_msg_name(), k[j].emit_msg_name()));
        assert!(!same(k[i].emit_msg_wrapper_name(), k[j].emit_msg_wrapper_name()));
        kani::cover!(true, "end of harness reachable");
    }

    #[kani::proof]
    #[kani::unwind(12)]
    fn kt_reply_on_new() {
        let mut buf = [0u8; 10];
        let s = any_ascii::<10>(&mut buf);
        let exp = if s == "success" { Some(ReplyOn::Success) } else if s == "error" { Some(ReplyOn::Error) } else if s == "always" { Some(ReplyOn::Always) } else { None };
        assert!(ReplyOn::new(s).ok() == exp);
        kani::cover!(ReplyOn::new(s).is_ok(), "some value accepted");
    }

    /// excludes(a, b) <=> outcomes(a) ∩ outcomes(b) != ∅, outcomes(Always) = {ok, err}
    #[kani::proof]
    fn kt_reply_on_excludes() {
        fn outcomes(r: ReplyOn) -> (bool, bool) {
            match r {
                ReplyOn::Success => (true, false),
                ReplyOn::Error => (false, true),
                ReplyOn::Always => (true, true),
            }
        }
        let all = [ReplyOn::Success, ReplyOn::Error, ReplyOn::Always];
        let i: usize = kani::any();
        let j: usize = kani::any();
        kani::assume(i < 3 && j < 3);
        let (a, b) = (all[i], all[j]);
        let (oa, ob) = (outcomes(a), outcomes(b));
        let overlap = (oa.0 && ob.0) || (oa.1 && ob.1);
        assert!(a.excludes(&b) == overlap);
        kani::cover!(a.excludes(&b), "some pair excluded");
        kani::cover!(!a.excludes(&b), "some pair compatible");
    }

    #[kani::proof]
    #[kani::unwind(26)]
    fn kt_attribute_names() {
        let mut buf = [0u8; 24];
        let s = any_ascii::<24>(&mut buf);
        let exp = if s == "custom" { Some(SylviaAttribute::Custom) }
            else if s == "error" { Some(SylviaAttribute::Error) }
            else if s == "messages" { Some(SylviaAttribute::Messages) }
            else if s == "msg" { Some(SylviaAttribute::Msg) }
            else if s == "override_entry_point" { Some(SylviaAttribute::OverrideEntryPoint) }
            else if s == "attr" { Some(SylviaAttribute::VariantAttrs) }
            else if s == "msg_attr" { Some(SylviaAttribute::MsgAttrs) }
            else if s == "payload" { Some(SylviaAttribute::Payload) }
            else if s == "data" { Some(SylviaAttribute::Data) }
            else if s == "features" { Some(SylviaAttribute::Features) }
            else { None };
        assert!(SylviaAttribute::match_attribute(s) == exp);
        kani::cover!(SylviaAttribute::match_attribute(s).is_some(), "some attribute recognised");
    }
}
