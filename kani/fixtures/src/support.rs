//! Shared harness support: echo error type, recording dummies for Storage/Api/Querier,
//! the shape-recording Serializer and the scripted self-describing Deserializer
//! (DESIGN.md §2.2).  None of this is code under verification.
#![allow(dead_code)]
use cosmwasm_std::{
    Addr, Api, BlockInfo, CanonicalAddr, ContractInfo, Env, MessageInfo, Querier, QuerierResult, RecoverPubkeyError, StdError, StdResult, Storage,
    Timestamp, VerificationError,
};
use std::cell::Cell;

pub const NARGS: usize = 12;

/// What an echo handler observed: which handler, its argument values, and context observations.
#[derive(Debug, Clone, Copy, PartialEq)]
pub struct Obs {
    pub h: u8,
    pub args: [u64; NARGS],
    pub height: u64,
    pub sender_len: u64,
    pub funds: u64,
    pub extra: u64,
}
impl Obs {
    pub fn new(h: u8) -> Obs {
        Obs { h, args: [0; NARGS], height: 0, sender_len: 0, funds: 0, extra: 0 }
    }
}

/// The contract error type of every fixture: either a converted StdError or an echo.
#[derive(Debug, PartialEq)]
pub enum Echo {
    Std,
    H(Obs),
}
/// Side channel for the TEXT of the last `StdError::GenericErr` converted into `Echo`: (length, first byte).
/// `Echo::Std` itself stays a unit variant, so every harness that only asks "an error of the Std kind" is
/// unaffected; harnesses on clauses that name the error text read it with `last_generic_text()`.
pub static mut LAST_GENERIC_TEXT: (u64, u8) = (u64::MAX, 0);
pub fn last_generic_text() -> (u64, u8) {
    unsafe { LAST_GENERIC_TEXT }
}
impl From<StdError> for Echo {
    fn from(e: StdError) -> Self {
        if let StdError::GenericErr { msg, .. } = &e {
            let b = msg.as_bytes();
            let first = if b.is_empty() { 0 } else { b[0] };
            unsafe { LAST_GENERIC_TEXT = (b.len() as u64, first) };
        }
        // leaked on purpose: the drop glue of StdError's Backtrace (frames, symbols, io::Error ...) is
        // symbolically executed by CBMC at every conversion and dominated whole harnesses
        core::mem::forget(e);
        Echo::Std
    }
}

/// A second error type, to observe `map_err(Into::into)` from an interface error into the contract error.
#[derive(Debug, PartialEq)]
pub enum IfaceErr {
    Std,
    H(Obs),
}
impl From<StdError> for IfaceErr {
    fn from(e: StdError) -> Self {
        core::mem::forget(e);
        IfaceErr::Std
    }
}
impl From<IfaceErr> for Echo {
    fn from(e: IfaceErr) -> Self {
        match e {
            IfaceErr::Std => Echo::Std,
            // the conversion is observable: handler number is shifted by 100
            IfaceErr::H(mut o) => {
                o.h = o.h.wrapping_add(100);
                Echo::H(o)
            }
        }
    }
}

/// Call counters: "exactly once and no other handler" is `calls == e_h`.
/// Four bits per handler packed in a u128 (no loops for CBMC to unwind).
pub struct Calls(pub Cell<u128>);
impl Calls {
    pub const fn new() -> Self {
        Calls(Cell::new(0))
    }
    pub fn hit(&self, h: u8) {
        self.0.set(self.0.get().wrapping_add(1u128 << (4 * (h as u32 % 32))));
    }
    pub fn only(&self, h: u8) -> bool {
        self.0.get() == 1u128 << (4 * (h as u32 % 32))
    }
    pub fn none(&self) -> bool {
        self.0.get() == 0
    }
}

// ---- dummies: deliberately NOT zero-sized (ZST addresses carry no identity) ----
pub struct S(pub Cell<u64>);
pub struct A(pub Cell<u64>);
pub struct Q(pub Cell<u64>);
impl Storage for S {
    fn get(&self, k: &[u8]) -> Option<Vec<u8>> {
        // reads are recorded too (query handlers only get &dyn Storage)
        self.0.set(1000 + if k.is_empty() { 0 } else { k[0] as u64 });
        None
    }
    fn set(&mut self, _k: &[u8], v: &[u8]) {
        self.0.set(if v.is_empty() { 0 } else { v[0] as u64 });
    }
    fn remove(&mut self, _k: &[u8]) {}
}
impl Api for A {
    fn addr_validate(&self, _h: &str) -> StdResult<Addr> {
        unimplemented!()
    }
    fn addr_canonicalize(&self, _h: &str) -> StdResult<CanonicalAddr> {
        unimplemented!()
    }
    fn addr_humanize(&self, _c: &CanonicalAddr) -> StdResult<Addr> {
        unimplemented!()
    }
    fn secp256k1_verify(&self, _: &[u8], _: &[u8], _: &[u8]) -> Result<bool, VerificationError> {
        Ok(false)
    }
    fn secp256k1_recover_pubkey(&self, _: &[u8], _: &[u8], _: u8) -> Result<Vec<u8>, RecoverPubkeyError> {
        Ok(vec![])
    }
    fn ed25519_verify(&self, _: &[u8], _: &[u8], _: &[u8]) -> Result<bool, VerificationError> {
        Ok(false)
    }
    fn ed25519_batch_verify(&self, _: &[&[u8]], _: &[&[u8]], _: &[&[u8]]) -> Result<bool, VerificationError> {
        Ok(false)
    }
    fn debug(&self, m: &str) {
        self.0.set(m.len() as u64 + 1);
    }
}
impl Querier for Q {
    fn raw_query(&self, _b: &[u8]) -> QuerierResult {
        unimplemented!()
    }
}
/// the caller's environment: symbolic block height, and a transaction index (7) that must reach every handler
pub const TX_INDEX: u32 = 7;
pub fn env(h: u64) -> Env {
    Env { block: BlockInfo { height: h, time: Timestamp::from_nanos(0), chain_id: String::new() }, transaction: Some(cosmwasm_std::TransactionInfo { index: TX_INDEX }),
          contract: ContractInfo { address: Addr::unchecked("") } }
}
/// what a handler observed of env.transaction (0 = none)
pub fn tx_marker(e: &Env) -> u64 {
    match &e.transaction { Some(t) => t.index as u64 + 1, None => 0 }
}
pub fn info(sender_len: u8) -> MessageInfo {
    // sender of 0..=2 bytes; funds empty (Coin vectors are costly for CBMC and only moved by the code under test)
    let s = match sender_len {
        0 => "",
        1 => "s",
        _ => "ss",
    };
    MessageInfo { sender: Addr::unchecked(s), funds: vec![] }
}

// ---- stubs that every harness touching StdError must use ----
pub fn fmt_stub(_args: std::fmt::Arguments<'_>) -> String {
    String::new()
}
pub fn bt_stub() -> std::backtrace::Backtrace {
    std::backtrace::Backtrace::disabled()
}

/// Stub for `cosmwasm_std::from_json`, used ONLY by the two reply-data cells whose input is a byte that is not a
/// response envelope: the real path never reaches the JSON parser there (the envelope decoder fails first), but CBMC
/// symbolically executes the parser of the unreachable branch and does not finish.  Always an error.
pub fn from_json_unreachable_stub<T: serde::de::DeserializeOwned>(_value: impl AsRef<[u8]>) -> StdResult<T> {
    Err(StdError::generic_err("from_json stubbed"))
}

/// Stub for `cosmwasm_std::Binary::to_base64` (the base64 encoder does not finish under CBMC): a fixed 4-character
/// text.  Used only where the obligation is "the typed Binary payload is JSON-encoded (a quoted string), not raw".
pub fn b64_stub(_b: &cosmwasm_std::Binary) -> String {
    String::from("QQ==")
}

/// symbolic ASCII string of at most N bytes, without `from_utf8`
#[cfg(kani)]
pub fn any_ascii<const N: usize>(buf: &mut [u8; N]) -> &str {
    let bytes: [u8; N] = kani::any();
    let len: usize = kani::any();
    kani::assume(len <= N);
    let mut i = 0;
    while i < N {
        kani::assume(bytes[i] < 128);
        i += 1;
    }
    *buf = bytes;
    unsafe { std::str::from_utf8_unchecked(&buf[..len]) }
}

pub mod rec {
    //! Recording serializer: captures the serde data-model shape (names handed to the
    //! Serializer as &'static str, scalar values) of derived Serialize impls.
    use super::NARGS;
    use serde::ser::{self, Impossible, Serialize};
    #[derive(Debug)]
    pub struct E;
    impl std::fmt::Display for E {
        fn fmt(&self, _f: &mut std::fmt::Formatter<'_>) -> std::fmt::Result {
            Ok(())
        }
    }
    impl std::error::Error for E {}
    impl ser::Error for E {
        fn custom<T: std::fmt::Display>(_m: T) -> Self {
            E
        }
    }

    #[derive(Clone, Copy)]
    pub struct Shape {
        /// 1 = struct, 2 = struct variant
        pub kind: u8,
        pub sname: &'static str,
        pub variant: &'static str,
        pub declared_len: usize,
        pub n: usize,
        pub keys: [&'static str; NARGS],
        pub vals: [u64; NARGS],
        /// for string-valued fields: pointer and length of the str handed to the serializer
        pub sptr: usize,
        pub slen: usize,
        pub skipped: usize,
    }
    impl Default for Shape {
        fn default() -> Self {
            Shape { kind: 0, sname: "", variant: "", declared_len: 0, n: 0, keys: [""; NARGS], vals: [0; NARGS], sptr: 0, slen: 0, skipped: 0 }
        }
    }

    pub struct Rec;
    pub struct SV {
        shape: Shape,
    }
    /// scalar value serializer: integers -> value; str -> (ptr,len) reported through `Val::Str`
    pub struct Scalar;
    pub enum Val {
        U(u64),
        Str(usize, usize),
        None,
    }

    macro_rules! no { ($ok:ty; $($m:ident($t:ty)),*) => { $(fn $m(self, _v: $t) -> Result<$ok, E> { Err(E) })* } }

    impl ser::Serializer for Scalar {
        type Ok = Val;
        type Error = E;
        type SerializeSeq = Impossible<Val, E>;
        type SerializeTuple = Impossible<Val, E>;
        type SerializeTupleStruct = Impossible<Val, E>;
        type SerializeTupleVariant = Impossible<Val, E>;
        type SerializeMap = Impossible<Val, E>;
        type SerializeStruct = Impossible<Val, E>;
        type SerializeStructVariant = Impossible<Val, E>;
        fn serialize_u64(self, v: u64) -> Result<Val, E> {
            Ok(Val::U(v))
        }
        fn serialize_u32(self, v: u32) -> Result<Val, E> {
            Ok(Val::U(v as u64))
        }
        fn serialize_u16(self, v: u16) -> Result<Val, E> {
            Ok(Val::U(v as u64))
        }
        fn serialize_u8(self, v: u8) -> Result<Val, E> {
            Ok(Val::U(v as u64))
        }
        fn serialize_bool(self, v: bool) -> Result<Val, E> {
            Ok(Val::U(v as u64))
        }
        fn serialize_str(self, v: &str) -> Result<Val, E> {
            Ok(Val::Str(v.as_ptr() as usize, v.len()))
        }
        no!(Val; serialize_i8(i8), serialize_i16(i16), serialize_i32(i32), serialize_i64(i64), serialize_f32(f32), serialize_f64(f64), serialize_char(char), serialize_bytes(&[u8]));
        fn serialize_none(self) -> Result<Val, E> {
            Ok(Val::None)
        }
        fn serialize_some<T: ?Sized + Serialize>(self, v: &T) -> Result<Val, E> {
            v.serialize(Scalar)
        }
        fn serialize_unit(self) -> Result<Val, E> {
            Err(E)
        }
        fn serialize_unit_struct(self, _n: &'static str) -> Result<Val, E> {
            Err(E)
        }
        fn serialize_unit_variant(self, _n: &'static str, _i: u32, _v: &'static str) -> Result<Val, E> {
            Err(E)
        }
        fn serialize_newtype_struct<T: ?Sized + Serialize>(self, _n: &'static str, v: &T) -> Result<Val, E> {
            v.serialize(Scalar)
        }
        fn serialize_newtype_variant<T: ?Sized + Serialize>(self, _n: &'static str, _i: u32, _var: &'static str, _v: &T) -> Result<Val, E> {
            Err(E)
        }
        fn serialize_seq(self, _l: Option<usize>) -> Result<Self::SerializeSeq, E> {
            Err(E)
        }
        fn serialize_tuple(self, _l: usize) -> Result<Self::SerializeTuple, E> {
            Err(E)
        }
        fn serialize_tuple_struct(self, _n: &'static str, _l: usize) -> Result<Self::SerializeTupleStruct, E> {
            Err(E)
        }
        fn serialize_tuple_variant(self, _n: &'static str, _i: u32, _v: &'static str, _l: usize) -> Result<Self::SerializeTupleVariant, E> {
            Err(E)
        }
        fn serialize_map(self, _l: Option<usize>) -> Result<Self::SerializeMap, E> {
            Err(E)
        }
        fn serialize_struct(self, _n: &'static str, _l: usize) -> Result<Self::SerializeStruct, E> {
            Err(E)
        }
        fn serialize_struct_variant(self, _n: &'static str, _i: u32, _v: &'static str, _l: usize) -> Result<Self::SerializeStructVariant, E> {
            Err(E)
        }
    }

    impl ser::Serializer for Rec {
        type Ok = Shape;
        type Error = E;
        type SerializeSeq = Impossible<Shape, E>;
        type SerializeTuple = Impossible<Shape, E>;
        type SerializeTupleStruct = Impossible<Shape, E>;
        type SerializeTupleVariant = Impossible<Shape, E>;
        type SerializeMap = Impossible<Shape, E>;
        type SerializeStruct = SV;
        type SerializeStructVariant = SV;
        no!(Shape; serialize_bool(bool), serialize_i8(i8), serialize_i16(i16), serialize_i32(i32), serialize_i64(i64), serialize_u8(u8), serialize_u16(u16), serialize_u32(u32), serialize_u64(u64), serialize_f32(f32), serialize_f64(f64), serialize_char(char), serialize_str(&str), serialize_bytes(&[u8]));
        fn serialize_none(self) -> Result<Shape, E> {
            Err(E)
        }
        fn serialize_some<T: ?Sized + Serialize>(self, _v: &T) -> Result<Shape, E> {
            Err(E)
        }
        fn serialize_unit(self) -> Result<Shape, E> {
            Err(E)
        }
        fn serialize_unit_struct(self, _n: &'static str) -> Result<Shape, E> {
            Err(E)
        }
        fn serialize_unit_variant(self, _n: &'static str, _i: u32, _v: &'static str) -> Result<Shape, E> {
            Err(E)
        }
        fn serialize_newtype_struct<T: ?Sized + Serialize>(self, _n: &'static str, _v: &T) -> Result<Shape, E> {
            Err(E)
        }
        // an untagged / transparent wrapper forwards to its content; a tagged newtype variant would
        // arrive here with a name — that is recorded as kind 3 so transparency checks can refute it
        fn serialize_newtype_variant<T: ?Sized + Serialize>(self, _n: &'static str, _i: u32, _var: &'static str, _v: &T) -> Result<Shape, E> {
            Ok(Shape { kind: 3, ..Default::default() })
        }
        fn serialize_seq(self, _l: Option<usize>) -> Result<Self::SerializeSeq, E> {
            Err(E)
        }
        fn serialize_tuple(self, _l: usize) -> Result<Self::SerializeTuple, E> {
            Err(E)
        }
        fn serialize_tuple_struct(self, _n: &'static str, _l: usize) -> Result<Self::SerializeTupleStruct, E> {
            Err(E)
        }
        fn serialize_tuple_variant(self, _n: &'static str, _i: u32, _v: &'static str, _l: usize) -> Result<Self::SerializeTupleVariant, E> {
            Err(E)
        }
        fn serialize_map(self, _l: Option<usize>) -> Result<Self::SerializeMap, E> {
            Err(E)
        }
        fn serialize_struct(self, n: &'static str, l: usize) -> Result<SV, E> {
            Ok(SV { shape: Shape { kind: 1, sname: n, declared_len: l, ..Default::default() } })
        }
        fn serialize_struct_variant(self, n: &'static str, _i: u32, v: &'static str, l: usize) -> Result<SV, E> {
            Ok(SV { shape: Shape { kind: 2, sname: n, variant: v, declared_len: l, ..Default::default() } })
        }
    }
    impl SV {
        fn field<T: ?Sized + Serialize>(&mut self, key: &'static str, value: &T) -> Result<(), E> {
            if self.shape.n >= NARGS {
                return Err(E);
            }
            match value.serialize(Scalar)? {
                Val::U(v) => self.shape.vals[self.shape.n] = v,
                Val::Str(p, l) => {
                    self.shape.sptr = p;
                    self.shape.slen = l;
                }
                Val::None => self.shape.vals[self.shape.n] = u64::MAX,
            }
            self.shape.keys[self.shape.n] = key;
            self.shape.n += 1;
            Ok(())
        }
    }
    impl ser::SerializeStruct for SV {
        type Ok = Shape;
        type Error = E;
        fn serialize_field<T: ?Sized + Serialize>(&mut self, key: &'static str, value: &T) -> Result<(), E> {
            self.field(key, value)
        }
        fn skip_field(&mut self, _key: &'static str) -> Result<(), E> {
            self.shape.skipped += 1;
            Ok(())
        }
        fn end(self) -> Result<Shape, E> {
            Ok(self.shape)
        }
    }
    impl ser::SerializeStructVariant for SV {
        type Ok = Shape;
        type Error = E;
        fn serialize_field<T: ?Sized + Serialize>(&mut self, key: &'static str, value: &T) -> Result<(), E> {
            self.field(key, value)
        }
        fn skip_field(&mut self, _key: &'static str) -> Result<(), E> {
            self.shape.skipped += 1;
            Ok(())
        }
        fn end(self) -> Result<Shape, E> {
            Ok(self.shape)
        }
    }
}

pub mod script {
    //! Scripted self-describing deserializer replaying ONE data-model event sequence:
    //!   enum message:   { <key>: { f0: v0, f1: v1, ... } }
    //!   struct message: { f0: v0, f1: v1, ... }
    //! with an error type whose custom() discards the text.
    use serde::de::{self, DeserializeSeed, Visitor};
    #[derive(Debug)]
    pub struct DE;
    impl std::fmt::Display for DE {
        fn fmt(&self, _f: &mut std::fmt::Formatter<'_>) -> std::fmt::Result {
            Ok(())
        }
    }
    impl std::error::Error for DE {}
    impl de::Error for DE {
        fn custom<T: std::fmt::Display>(_m: T) -> Self {
            DE
        }
    }

    pub struct KeyD<'a>(pub &'a str);
    impl<'de, 'a> de::Deserializer<'de> for KeyD<'a> {
        type Error = DE;
        fn deserialize_any<V: Visitor<'de>>(self, v: V) -> Result<V::Value, DE> {
            v.visit_str(self.0)
        }
        serde::forward_to_deserialize_any! { bool i8 i16 i32 i64 i128 u8 u16 u32 u64 u128 f32 f64 char str string bytes byte_buf option unit unit_struct newtype_struct seq tuple tuple_struct map struct enum identifier ignored_any }
    }
    /// a scalar or string value
    #[derive(Clone, Copy)]
    pub enum Sv<'a> {
        U(u64),
        S(&'a str),
    }
    pub struct ValD<'a>(pub Sv<'a>);
    impl<'de, 'a> de::Deserializer<'de> for ValD<'a> {
        type Error = DE;
        fn deserialize_any<V: Visitor<'de>>(self, v: V) -> Result<V::Value, DE> {
            match self.0 {
                Sv::U(x) => v.visit_u64(x),
                Sv::S(s) => v.visit_str(s),
            }
        }
        fn deserialize_option<V: Visitor<'de>>(self, v: V) -> Result<V::Value, DE> {
            v.visit_some(self)
        }
        fn deserialize_newtype_struct<V: Visitor<'de>>(self, _n: &'static str, v: V) -> Result<V::Value, DE> {
            v.visit_newtype_struct(self)
        }
        serde::forward_to_deserialize_any! { bool i8 i16 i32 i64 i128 u8 u16 u32 u64 u128 f32 f64 char str string bytes byte_buf unit unit_struct seq tuple tuple_struct map struct enum identifier ignored_any }
    }

    /// a self-describing document made of nested maps: `{ k0: v0, k1: v1 }` where a value is a scalar, a string
    /// or another such map — what a JSON object looks like to a `deserialize_any` consumer
    #[derive(Clone, Copy)]
    pub enum Node<'a> {
        U(u64),
        S(&'a str),
        M(&'a [(&'a str, Node<'a>)]),
        Unit,
    }
    pub struct NodeD<'a>(pub Node<'a>);
    pub struct NodeMap<'a> {
        pub entries: &'a [(&'a str, Node<'a>)],
        pub i: usize,
    }
    impl<'de, 'a> de::Deserializer<'de> for NodeD<'a> {
        type Error = DE;
        fn deserialize_any<V: Visitor<'de>>(self, v: V) -> Result<V::Value, DE> {
            match self.0 {
                Node::U(x) => v.visit_u64(x),
                Node::S(s) => v.visit_str(s),
                Node::M(e) => v.visit_map(NodeMap { entries: e, i: 0 }),
                Node::Unit => v.visit_unit(),
            }
        }
        serde::forward_to_deserialize_any! { bool i8 i16 i32 i64 i128 u8 u16 u32 u64 u128 f32 f64 char str string bytes byte_buf option unit unit_struct newtype_struct seq tuple tuple_struct map struct enum identifier ignored_any }
    }
    impl<'de, 'a> de::MapAccess<'de> for NodeMap<'a> {
        type Error = DE;
        fn next_key_seed<K: DeserializeSeed<'de>>(&mut self, seed: K) -> Result<Option<K::Value>, DE> {
            if self.i >= self.entries.len() {
                return Ok(None);
            }
            seed.deserialize(KeyD(self.entries[self.i].0)).map(Some)
        }
        fn next_value_seed<V: DeserializeSeed<'de>>(&mut self, seed: V) -> Result<V::Value, DE> {
            let n = self.entries[self.i].1;
            self.i += 1;
            seed.deserialize(NodeD(n))
        }
    }

    pub struct UnitD;
    impl<'de> de::Deserializer<'de> for UnitD {
        type Error = DE;
        fn deserialize_any<V: Visitor<'de>>(self, v: V) -> Result<V::Value, DE> {
            v.visit_unit()
        }
        serde::forward_to_deserialize_any! { bool i8 i16 i32 i64 i128 u8 u16 u32 u64 u128 f32 f64 char str string bytes byte_buf option unit unit_struct newtype_struct seq tuple tuple_struct map struct enum identifier ignored_any }
    }

    /// `{ <key>: { fields... } }` presented to `deserialize_enum`
    pub struct ED<'a> {
        pub key: &'a str,
        pub fields: &'a [(&'a str, Sv<'a>)],
    }
    impl<'de, 'a> de::Deserializer<'de> for ED<'a> {
        type Error = DE;
        fn deserialize_any<V: Visitor<'de>>(self, _v: V) -> Result<V::Value, DE> {
            Err(DE)
        }
        fn deserialize_enum<V: Visitor<'de>>(self, _n: &'static str, _vs: &'static [&'static str], v: V) -> Result<V::Value, DE> {
            v.visit_enum(self)
        }
        serde::forward_to_deserialize_any! { bool i8 i16 i32 i64 i128 u8 u16 u32 u64 u128 f32 f64 char str string bytes byte_buf option unit unit_struct newtype_struct seq tuple tuple_struct map struct identifier ignored_any }
    }
    impl<'de, 'a> de::EnumAccess<'de> for ED<'a> {
        type Error = DE;
        type Variant = MA<'a>;
        fn variant_seed<S: DeserializeSeed<'de>>(self, seed: S) -> Result<(S::Value, MA<'a>), DE> {
            let v = seed.deserialize(KeyD(self.key))?;
            Ok((v, MA { fields: self.fields, i: 0 }))
        }
    }
    /// the field map `{ f0: v0, ... }`; also a Deserializer for derived struct impls
    pub struct MA<'a> {
        pub fields: &'a [(&'a str, Sv<'a>)],
        pub i: usize,
    }
    impl<'de, 'a> de::VariantAccess<'de> for MA<'a> {
        type Error = DE;
        fn unit_variant(self) -> Result<(), DE> {
            Err(DE)
        }
        fn newtype_variant_seed<T: DeserializeSeed<'de>>(self, s: T) -> Result<T::Value, DE> {
            // `{ <key>: null }`: the content of a newtype variant is presented as a unit
            s.deserialize(UnitD)
        }
        fn tuple_variant<V: Visitor<'de>>(self, _l: usize, _v: V) -> Result<V::Value, DE> {
            Err(DE)
        }
        fn struct_variant<V: Visitor<'de>>(self, _f: &'static [&'static str], v: V) -> Result<V::Value, DE> {
            v.visit_map(self)
        }
    }
    impl<'de, 'a> de::MapAccess<'de> for MA<'a> {
        type Error = DE;
        fn next_key_seed<K: DeserializeSeed<'de>>(&mut self, seed: K) -> Result<Option<K::Value>, DE> {
            if self.i >= self.fields.len() {
                return Ok(None);
            }
            seed.deserialize(KeyD(self.fields[self.i].0)).map(Some)
        }
        fn next_value_seed<V: DeserializeSeed<'de>>(&mut self, seed: V) -> Result<V::Value, DE> {
            let v = self.fields[self.i].1;
            self.i += 1;
            seed.deserialize(ValD(v))
        }
    }
    impl<'de, 'a> de::Deserializer<'de> for MA<'a> {
        type Error = DE;
        fn deserialize_any<V: Visitor<'de>>(self, v: V) -> Result<V::Value, DE> {
            v.visit_map(self)
        }
        serde::forward_to_deserialize_any! { bool i8 i16 i32 i64 i128 u8 u16 u32 u64 u128 f32 f64 char str string bytes byte_buf option unit unit_struct newtype_struct seq tuple tuple_struct map struct enum identifier ignored_any }
    }
}
