//! fx_exec: generated Executor helpers (C10): remote.executor().<method>(args)? is a ready builder for
//! WasmMsg::Execute addressed to the handle, whose body is the canonical serialisation of the same ExecMsg variant.
#![allow(unused_imports, unused_variables, dead_code)]
use crate::support::*;
use cosmwasm_std::{Response, StdError};
use sylvia::ctx::{ExecCtx, InstantiateCtx, QueryCtx};

pub mod xi {
    use super::*;
    #[sylvia::interface]
    #[sv::custom(msg=cosmwasm_std::Empty, query=cosmwasm_std::Empty)]
    pub trait Xi {
        type Error: From<StdError>;
        #[sv::msg(exec)]
        fn xi_do(&self, ctx: ExecCtx, n: u64) -> Result<Response, Self::Error>;
    }
}

pub struct Xc;

#[sylvia::contract]
#[sv::error(Echo)]
#[sv::messages(xi)]
impl Xc {
    pub const fn new() -> Self {
        Xc
    }
    #[sv::msg(instantiate)]
    fn instantiate(&self, ctx: InstantiateCtx) -> Result<Response, Echo> {
        Err(Echo::Std)
    }
    #[sv::msg(exec)]
    fn pay(&self, ctx: ExecCtx, to: u64, amount: u64) -> Result<Response, Echo> {
        Err(Echo::Std)
    }
    #[sv::msg(exec)]
    fn ping(&self, ctx: ExecCtx) -> Result<Response, Echo> {
        Err(Echo::Std)
    }
}
impl xi::Xi for Xc {
    type Error = Echo;
    fn xi_do(&self, ctx: ExecCtx, n: u64) -> Result<Response, Echo> {
        Err(Echo::Std)
    }
}

#[cfg(kani)]
pub mod proofs {
    use super::*;
    use cosmwasm_std::{to_json_binary, Addr, WasmMsg};
    use sylvia::types::Remote;

    fn eq_bytes(a: &[u8], b: &[u8]) -> bool {
        if a.len() != b.len() { return false; }
        let mut i = 0; let mut ok = true;
        while i < a.len() { if a[i] != b[i] { ok = false; } i += 1; }
        ok
    }

    /// contract-typed handle: executor().ping()?.build()  (a two-argument method exhausted CBMC's memory: the JSON
    /// printer of two integers inside the larger contract enum; the argument-carrying case is the interface harness)
    #[kani::proof]
    #[kani::unwind(40)]
    #[kani::stub(alloc::fmt::format, fmt_stub)]
    #[kani::stub(std::backtrace::Backtrace::capture, bt_stub)]
    fn c10_fx_exec_contract_method() {
        use sv::Executor;
        let c: u8 = kani::any(); kani::assume(c.is_ascii_lowercase());
        let addr = Addr::unchecked(unsafe { String::from_utf8_unchecked(vec![c]) });
        let remote: Remote<'_, Xc> = Remote::borrowed(&addr);
        let b = core::mem::ManuallyDrop::new(remote.executor().ping());
        match &*b {
            Ok(ready) => {
                let w = core::mem::ManuallyDrop::new(unsafe { core::ptr::read(ready) }.build());
                match &*w {
                    WasmMsg::Execute { contract_addr, msg, funds } => {
                        assert!(contract_addr.len() == 1 && contract_addr.as_bytes()[0] == c);
                        assert!(funds.is_empty());
                        assert!(eq_bytes(msg.as_slice(), b"{\"ping\":{}}"));
                    }
                    _ => assert!(false),
                }
            }
            Err(_) => assert!(false),
        }
        kani::cover!(true, "end of harness reachable");
    }
    /// `dyn Interface`-typed handle: executor().xi_do(n)?.build()
    #[kani::proof]
    #[kani::unwind(40)]
    #[kani::stub(alloc::fmt::format, fmt_stub)]
    #[kani::stub(std::backtrace::Backtrace::capture, bt_stub)]
    fn c10_fx_exec_interface_method() {
        use xi::sv::Executor;
        let n: u8 = kani::any(); kani::assume(n < 10);
        let c: u8 = kani::any(); kani::assume(c.is_ascii_lowercase());
        let addr = Addr::unchecked(unsafe { String::from_utf8_unchecked(vec![c]) });
        let remote: Remote<'_, dyn xi::Xi<Error = Echo>> = Remote::borrowed(&addr);
        let b = core::mem::ManuallyDrop::new(remote.executor().xi_do(n as u64));
        match &*b {
            Ok(ready) => {
                let w = core::mem::ManuallyDrop::new(unsafe { core::ptr::read(ready) }.build());
                match &*w {
                    WasmMsg::Execute { contract_addr, msg, funds } => {
                        assert!(contract_addr.len() == 1 && contract_addr.as_bytes()[0] == c);
                        assert!(funds.is_empty());
                        let mut exp = *b"{\"xi_do\":{\"n\":0}}";
                        exp[14] = b'0' + n;
                        assert!(eq_bytes(msg.as_slice(), &exp));
                    }
                    _ => assert!(false),
                }
            }
            Err(_) => assert!(false),
        }
        kani::cover!(true, "end of harness reachable");
    }
}
