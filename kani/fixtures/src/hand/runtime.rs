//! K harnesses (DESIGN.md §1 legend): assume-pre / call the REAL function / assert-post.
#![allow(unused_imports, dead_code)]
use crate::support::*;

pub struct Fix;
pub trait Iface {
    type Error;
}

#[cfg(kani)]
pub mod proofs {
    use super::*;
    use cosmwasm_std::{Addr, Binary, Coin, Deps, DepsMut, Empty, Env, Event, MessageInfo, MsgResponse, QuerierWrapper, Storage, Uint128, WasmMsg};
    use std::cell::Cell;
    use sylvia::ctx::{ExecCtx, InstantiateCtx, MigrateCtx, QueryCtx, ReplyCtx, SudoCtx};
    use sylvia::types::{ExecutorBuilder, ReadyExecutorBuilderState, Remote};

    fn sptr(s: &dyn Storage) -> *const u8 {
        s as *const dyn Storage as *const u8
    }

    // ---------------- C02: ctx::From<tuple> is the identity on every component ----------------
    #[kani::proof]
    #[kani::unwind(4)]
    fn k_ctx_from_exec() {
        let mut s = S(Cell::new(7)); let a = A(Cell::new(0)); let q = Q(Cell::new(0));
        let p = &s as *const S as *const u8;
        let h: u64 = kani::any(); let sl: u8 = kani::any(); kani::assume(sl <= 2);
        let deps = DepsMut { storage: &mut s, api: &a, querier: QuerierWrapper::<Empty>::new(&q) };
        let c: ExecCtx = (deps, env(h), info(sl)).into();
        assert!(sptr(c.deps.storage) == p);
        assert!(c.env.block.height == h && tx_marker(&c.env) == TX_INDEX as u64 + 1);
        assert!(c.info.sender.as_str().len() == sl as usize && c.info.funds.is_empty());
        c.deps.api.debug("xy");
        assert!(a.0.get() == 3);
        kani::cover!(true, "end of harness reachable");
    }
    #[kani::proof]
    #[kani::unwind(4)]
    fn k_ctx_from_instantiate() {
        let mut s = S(Cell::new(7)); let a = A(Cell::new(0)); let q = Q(Cell::new(0));
        let p = &s as *const S as *const u8;
        let h: u64 = kani::any(); let sl: u8 = kani::any(); kani::assume(sl <= 2);
        let deps = DepsMut { storage: &mut s, api: &a, querier: QuerierWrapper::<Empty>::new(&q) };
        let c: InstantiateCtx = (deps, env(h), info(sl)).into();
        assert!(sptr(c.deps.storage) == p);
        assert!(c.env.block.height == h && tx_marker(&c.env) == TX_INDEX as u64 + 1);
        assert!(c.info.sender.as_str().len() == sl as usize && c.info.funds.is_empty());
        c.deps.api.debug("xy");
        assert!(a.0.get() == 3);
        kani::cover!(true, "end of harness reachable");
    }
    #[kani::proof]
    #[kani::unwind(4)]
    fn k_ctx_from_query() {
        let s = S(Cell::new(7)); let a = A(Cell::new(0)); let q = Q(Cell::new(0));
        let p = &s as *const S as *const u8;
        let h: u64 = kani::any();
        let deps = Deps { storage: &s, api: &a, querier: QuerierWrapper::<Empty>::new(&q) };
        let c: QueryCtx = (deps, env(h)).into();
        assert!(sptr(c.deps.storage) == p);
        assert!(c.env.block.height == h && tx_marker(&c.env) == TX_INDEX as u64 + 1);
        c.deps.api.debug("xy");
        assert!(a.0.get() == 3);
        kani::cover!(true, "end of harness reachable");
    }
    #[kani::proof]
    #[kani::unwind(4)]
    fn k_ctx_from_sudo_migrate() {
        let mut s = S(Cell::new(7)); let a = A(Cell::new(0)); let q = Q(Cell::new(0));
        let p = &s as *const S as *const u8;
        let h: u64 = kani::any();
        {
            let deps = DepsMut { storage: &mut s, api: &a, querier: QuerierWrapper::<Empty>::new(&q) };
            let c: SudoCtx = (deps, env(h)).into();
            assert!(sptr(c.deps.storage) == p && c.env.block.height == h && tx_marker(&c.env) == TX_INDEX as u64 + 1);
        }
        {
            let deps = DepsMut { storage: &mut s, api: &a, querier: QuerierWrapper::<Empty>::new(&q) };
            let c: MigrateCtx = (deps, env(h)).into();
            assert!(sptr(c.deps.storage) == p && c.env.block.height == h && tx_marker(&c.env) == TX_INDEX as u64 + 1);
        }
        kani::cover!(true, "end of harness reachable");
    }
    #[kani::proof]
    #[kani::unwind(4)]
    fn k_ctx_from_reply() {
        let mut s = S(Cell::new(7)); let a = A(Cell::new(0)); let q = Q(Cell::new(0));
        let p = &s as *const S as *const u8;
        let h: u64 = kani::any(); let gas: u64 = kani::any();
        let ne: u8 = kani::any(); kani::assume(ne <= 2);
        let nm: u8 = kani::any(); kani::assume(nm <= 2);
        let mut evs = vec![]; let mut i = 0; while i < ne { evs.push(Event::new("e")); i += 1; }
        let mut mrs = vec![]; let mut i = 0; while i < nm { mrs.push(MsgResponse { type_url: String::new(), value: Binary::default() }); i += 1; }
        let deps = DepsMut { storage: &mut s, api: &a, querier: QuerierWrapper::<Empty>::new(&q) };
        let c: ReplyCtx = (deps, env(h), gas, evs, mrs).into();
        let c = core::mem::ManuallyDrop::new(c);
        assert!(sptr(c.deps.storage) == p && c.env.block.height == h && c.gas_used == gas && tx_marker(&c.env) == TX_INDEX as u64 + 1);
        assert!(c.events.len() == ne as usize && c.msg_responses.len() == nm as usize);
        kani::cover!(true, "end of harness reachable");
    }

    // ---------------- C10: builders and Remote helpers ----------------
    fn any_addr2() -> Addr {
        // address of 0..=2 symbolic ASCII bytes
        let b: [u8; 2] = kani::any(); let l: usize = kani::any();
        kani::assume(l <= 2 && b[0] < 128 && b[1] < 128);
        Addr::unchecked(unsafe { std::str::from_utf8_unchecked(&b[..l]) }.to_owned())
    }
    fn same_bytes(a: &str, b: &str) -> bool {
        if a.len() != b.len() { return false; }
        let (x, y) = (a.as_bytes(), b.as_bytes());
        let mut i = 0; let mut ok = true;
        while i < x.len() { if x[i] != y[i] { ok = false; } i += 1; }
        ok
    }

    #[kani::proof]
    #[kani::unwind(4)]
    fn k_executor_builder() {
        let addr = any_addr2();
        let b = ExecutorBuilder::<(sylvia::types::EmptyExecutorBuilderState, Fix)>::new(&addr);
        assert!(same_bytes(b.contract(), addr.as_str()));
        assert!(b.funds().is_empty());
        let amount: u128 = kani::any();
        // funds are SET, not accumulated: a second with_funds replaces the first
        let first: u128 = kani::any();
        let b = b.with_funds(vec![Coin { denom: String::new(), amount: Uint128::new(first) }, Coin { denom: String::new(), amount: Uint128::new(first) }]);
        let b = core::mem::ManuallyDrop::new(b.with_funds(vec![Coin { denom: String::new(), amount: Uint128::new(amount) }]));
        assert!(same_bytes(b.contract(), addr.as_str()));
        assert!(b.funds().len() == 1 && b.funds()[0].amount.u128() == amount);
        kani::cover!(true, "end of harness reachable");
    }

    #[kani::proof]
    #[kani::unwind(4)]
    fn k_executor_builder_build() {
        // ready state -> WasmMsg::Execute with exactly these parts
        let m: u8 = kani::any(); let amount: u128 = kani::any(); let c: u8 = kani::any(); kani::assume(c < 128);
        let contract = unsafe { String::from_utf8_unchecked(vec![c]) };
        let ready = ExecutorBuilder::<ReadyExecutorBuilderState>::new(contract, vec![Coin { denom: String::new(), amount: Uint128::new(amount) }], Binary::new(vec![m]));
        let w = core::mem::ManuallyDrop::new(ready.build());
        match &*w {
            WasmMsg::Execute { contract_addr, msg, funds } => {
                assert!(contract_addr.len() == 1 && contract_addr.as_bytes()[0] == c);
                assert!(msg.as_slice().len() == 1 && msg.as_slice()[0] == m);
                assert!(funds.len() == 1 && funds[0].amount.u128() == amount);
            }
            _ => assert!(false),
        }
        kani::cover!(true, "end of harness reachable");
    }

    #[kani::proof]
    #[kani::unwind(4)]
    fn k_instantiate_builder() {
        use sylvia::builder::instantiate::InstantiateBuilder;
        let m: u8 = kani::any(); let code: u64 = kani::any();
        let with_label: bool = kani::any(); let with_admin: bool = kani::any(); let with_funds: bool = kani::any();
        let amount: u128 = kani::any();
        let mut b = InstantiateBuilder::new(Binary::new(vec![m]), code);
        if with_label { b = b.with_label("lb"); }
        if with_admin { b = b.with_admin("ad".to_owned()); }
        if with_funds {
            // set, not accumulated
            b = b.with_funds(vec![Coin { denom: String::new(), amount: Uint128::new(1) }, Coin { denom: String::new(), amount: Uint128::new(2) }]);
            b = b.with_funds(vec![Coin { denom: String::new(), amount: Uint128::new(amount) }]);
        }
        let w = core::mem::ManuallyDrop::new(b.build());
        match &*w {
            WasmMsg::Instantiate { code_id, msg, admin, label, funds } => {
                assert!(*code_id == code);
                assert!(msg.as_slice().len() == 1 && msg.as_slice()[0] == m);
                match admin { Some(a) => assert!(with_admin && same_bytes(a, "ad")), None => assert!(!with_admin) }
                if with_label { assert!(same_bytes(label, "lb")); } else { assert!(label.is_empty()); }
                if with_funds { assert!(funds.len() == 1 && funds[0].amount.u128() == amount); } else { assert!(funds.is_empty()); }
            }
            _ => assert!(false),
        }
        kani::cover!(true, "end of harness reachable");
    }

    #[cfg(feature = "cw12")]
    #[kani::proof]
    #[kani::unwind(4)]
    fn k_instantiate_builder2() {
        use sylvia::builder::instantiate::InstantiateBuilder;
        let m: u8 = kani::any(); let code: u64 = kani::any(); let salt: [u8; 2] = kani::any();
        // salt of 0, 1 or 2 symbolic bytes: an empty salt is still the salted form
        let sl: usize = kani::any(); kani::assume(sl <= 2);
        let with_label: bool = kani::any(); let with_admin: bool = kani::any();
        let mut b = InstantiateBuilder::new(Binary::new(vec![m]), code);
        if with_label { b = b.with_label("lb"); }
        if with_admin { b = b.with_admin("ad".to_owned()); }
        let w = core::mem::ManuallyDrop::new(b.build2(Binary::new(salt[..sl].to_vec())));
        match &*w {
            WasmMsg::Instantiate2 { code_id, msg, admin, label, funds, salt: s2 } => {
                assert!(*code_id == code);
                assert!(msg.as_slice().len() == 1 && msg.as_slice()[0] == m);
                match admin { Some(a) => assert!(with_admin && same_bytes(a, "ad")), None => assert!(!with_admin) }
                if with_label { assert!(same_bytes(label, "lb")); } else { assert!(label.is_empty()); }
                assert!(funds.is_empty());
                assert!(s2.as_slice().len() == sl);
                assert!(sl < 1 || s2.as_slice()[0] == salt[0]);
                assert!(sl < 2 || s2.as_slice()[1] == salt[1]);
            }
            _ => assert!(false),
        }
        kani::cover!(true, "end of harness reachable");
    }

    #[kani::proof]
    #[kani::unwind(4)]
    fn k_remote_helpers() {
        let addr = any_addr2();
        let keep = addr.clone();
        let owned: bool = kani::any();
        let r: Remote<'_, Fix> = if owned { Remote::new(addr) } else { Remote::borrowed(&keep) };
        let a: &Addr = r.as_ref();
        assert!(same_bytes(a.as_str(), keep.as_str()));
        let e = r.executor();
        assert!(same_bytes(e.contract(), keep.as_str()) && e.funds().is_empty());
        let w = core::mem::ManuallyDrop::new(r.update_admin("na"));
        match &*w {
            WasmMsg::UpdateAdmin { contract_addr, admin } => assert!(same_bytes(contract_addr, keep.as_str()) && same_bytes(admin, "na")),
            _ => assert!(false),
        }
        let w2 = core::mem::ManuallyDrop::new(r.clear_admin());
        match &*w2 {
            WasmMsg::ClearAdmin { contract_addr } => assert!(same_bytes(contract_addr, keep.as_str())),
            _ => assert!(false),
        }
        kani::cover!(true, "end of harness reachable");
    }

    // ---------------- C20: Remote<T> has a stable, type-independent encoding ----------------
    fn remote_shape_for<T: ?Sized>(keep: &Addr, owned: bool) {
        use serde::Serialize;
        let r: Remote<'_, T> = if owned { Remote::new(keep.clone()) } else { Remote::borrowed(keep) };
        let sh = r.serialize(rec::Rec).unwrap();
        assert!(sh.kind == 1 && sh.sname == "Remote");
        assert!(sh.n == 1 && sh.keys[0] == "addr");
        let a: &Addr = r.as_ref();
        // the str handed to the serializer IS the address (same pointer, same length): every byte is the address's
        assert!(sh.sptr == a.as_str().as_ptr() as usize && sh.slen == a.as_str().len());
        assert!(a.as_str().len() == keep.as_str().len());
    }
    fn any_addr6() -> Addr {
        let b: [u8; 6] = kani::any(); let l: usize = kani::any();
        kani::assume(l <= 6);
        let mut i = 0; while i < 6 { kani::assume(b[i] < 128); i += 1; }
        Addr::unchecked(unsafe { std::str::from_utf8_unchecked(&b[..l]) }.to_owned())
    }
    #[kani::proof]
    #[kani::unwind(9)]
    fn k_remote_shape_contract() {
        let keep = any_addr6();
        remote_shape_for::<Fix>(&keep, kani::any());
        kani::cover!(true, "end of harness reachable");
    }
    #[kani::proof]
    #[kani::unwind(9)]
    fn k_remote_shape_dyn() {
        let keep = any_addr6();
        remote_shape_for::<dyn Iface<Error = Echo>>(&keep, kani::any());
        kani::cover!(true, "end of harness reachable");
    }
    #[kani::proof]
    #[kani::unwind(9)]
    fn k_remote_shape_unit() {
        let keep = any_addr6();
        remote_shape_for::<()>(&keep, kani::any());
        kani::cover!(true, "end of harness reachable");
    }
    #[kani::proof]
    #[kani::unwind(9)]
    fn k_remote_decode() {
        use serde::Deserialize;
        let b: [u8; 4] = kani::any(); let l: usize = kani::any();
        kani::assume(l <= 4);
        let mut i = 0; while i < 4 { kani::assume(b[i] < 128); i += 1; }
        let s = unsafe { std::str::from_utf8_unchecked(&b[..l]) };
        let fields: [(&str, script::Sv); 1] = [("addr", script::Sv::S(s))];
        let r: Result<Remote<'static, dyn Iface<Error = Echo>>, _> = Remote::deserialize(script::MA { fields: &fields, i: 0 });
        match r {
            Ok(rem) => {
                let a: &Addr = rem.as_ref();
                assert!(a.as_str().len() == l);
                let mut j = 0; while j < l { assert!(a.as_str().as_bytes()[j] == b[j]); j += 1; }
            }
            Err(_) => assert!(false),
        }
        // a document without `addr`, or with another member only, is rejected
        let other: [(&str, script::Sv); 1] = [("address", script::Sv::S(s))];
        let r2: Result<Remote<'static, Fix>, _> = Remote::deserialize(script::MA { fields: &other, i: 0 });
        assert!(r2.is_err());
        kani::cover!(true, "end of harness reachable");
    }
    #[kani::proof]
    #[kani::unwind(9)]
    fn k_remote_schema_name() {
        use schemars::JsonSchema;
        let a = <Remote<'static, Fix> as JsonSchema>::schema_name();
        let b = <Remote<'static, dyn Iface<Error = Echo>> as JsonSchema>::schema_name();
        let c = <Remote<'static, ()> as JsonSchema>::schema_name();
        assert!(same_bytes(&a, &b) && same_bytes(&b, &c) && same_bytes(&a, "Remote"));
        // the identity under which schemars files the definition does not depend on the parameter either
        // (otherwise two handles in one root schema are published as Remote, Remote2, ...)
        let ia = <Remote<'static, Fix> as JsonSchema>::schema_id();
        let ib = <Remote<'static, dyn Iface<Error = Echo>> as JsonSchema>::schema_id();
        assert!(same_bytes(&ia, &ib));
        // T: an unsized parameter with no trait impls at all still has all three impls
        fn needs<X: serde::Serialize + serde::de::DeserializeOwned + JsonSchema>() {}
        // T-BEGIN runtime.T.remote_impls_unbounded
        needs::<Remote<'static, dyn Iface<Error = Echo>>>();
        needs::<Remote<'static, str>>();
        // T-END runtime.T.remote_impls_unbounded
        kani::cover!(true, "end of harness reachable");
    }

    // ---------------- C05 cross-checks (bounded; never counted as proof) ----------------
    const TABLE: [&str; 5] = ["", "a", "ab", "b", "ba"];
    fn pick() -> &'static str {
        let i: usize = kani::any();
        kani::assume(i < 5);
        TABLE[i]
    }
    fn lt(a: &str, b: &str) -> bool { a.as_bytes() < b.as_bytes() }
    /// unmodified assert_no_intersection, N = 2, lengths <= 2, 5-string alphabet: disjoint => returns (no panic)
    #[kani::proof]
    #[kani::unwind(8)]
    fn k_utils_disjoint_returns_n2() {
        let a = [pick(), pick()]; let b = [pick(), pick()];
        let la: usize = kani::any(); let lb: usize = kani::any();
        kani::assume(la <= 2 && lb <= 2);
        let mut i = 0;
        while i < la { let mut j = 0; while j < lb { kani::assume(!same_bytes(a[i], b[j])); j += 1; } i += 1; }
        sylvia::utils::assert_no_intersection([&a[..la], &b[..lb]]);
        kani::cover!(true, "returns");
    }
    /// sorted lists sharing a name: the call must not return (the panic is expected; the cover after it must be unreachable)
    #[kani::proof]
    #[kani::unwind(8)]
    #[kani::should_panic]
    fn k_utils_overlap_panics_n2() {
        let a = [pick(), pick()]; let b = [pick(), pick()];
        let la: usize = kani::any(); let lb: usize = kani::any();
        kani::assume(la <= 2 && lb <= 2 && la >= 1 && lb >= 1);
        if la == 2 { kani::assume(lt(a[0], a[1])); }
        if lb == 2 { kani::assume(lt(b[0], b[1])); }
        let ia: usize = kani::any(); let ib: usize = kani::any();
        kani::assume(ia < la && ib < lb && same_bytes(a[ia], b[ib]));
        sylvia::utils::assert_no_intersection([&a[..la], &b[..lb]]);
        kani::cover!(true, "UNREACHABLE-EXPECTED: returned although a name is shared");
    }
    /// N = 3, lengths <= 2: disjoint => returns
    #[kani::proof]
    #[kani::unwind(10)]
    fn k_utils_disjoint_returns_n3() {
        let a = [pick(), pick()]; let b = [pick(), pick()]; let c = [pick(), pick()];
        let la: usize = kani::any(); let lb: usize = kani::any(); let lc: usize = kani::any();
        kani::assume(la <= 2 && lb <= 2 && lc <= 2);
        let mut i = 0;
        while i < la { let mut j = 0; while j < lb { kani::assume(!same_bytes(a[i], b[j])); j += 1; } i += 1; }
        let mut i = 0;
        while i < la { let mut j = 0; while j < lc { kani::assume(!same_bytes(a[i], c[j])); j += 1; } i += 1; }
        let mut i = 0;
        while i < lb { let mut j = 0; while j < lc { kani::assume(!same_bytes(b[i], c[j])); j += 1; } i += 1; }
        sylvia::utils::assert_no_intersection([&a[..la], &b[..lb], &c[..lc]]);
        kani::cover!(true, "returns");
    }
    /// N = 3: sorted lists, the first and the third share a name => never returns
    #[kani::proof]
    #[kani::unwind(10)]
    #[kani::should_panic]
    fn k_utils_overlap_panics_n3() {
        let a = [pick(), pick()]; let b = [pick(), pick()]; let c = [pick(), pick()];
        let la: usize = kani::any(); let lb: usize = kani::any(); let lc: usize = kani::any();
        kani::assume(la <= 2 && lb <= 2 && lc <= 2 && la >= 1 && lc >= 1);
        if la == 2 { kani::assume(lt(a[0], a[1])); }
        if lb == 2 { kani::assume(lt(b[0], b[1])); }
        if lc == 2 { kani::assume(lt(c[0], c[1])); }
        let ia: usize = kani::any(); let ic: usize = kani::any();
        kani::assume(ia < la && ic < lc && same_bytes(a[ia], c[ic]));
        sylvia::utils::assert_no_intersection([&a[..la], &b[..lb], &c[..lc]]);
        kani::cover!(true, "UNREACHABLE-EXPECTED: returned although a name is shared");
    }
    /// R2 cross-check: konst::cmp_str is the byte-lexicographic order and konst::eq_str is equality (strings <= 2 bytes)
    #[kani::proof]
    #[kani::unwind(6)]
    fn k_konst_contracts() {
        let x: [u8; 2] = kani::any(); let y: [u8; 2] = kani::any();
        let lx: usize = kani::any(); let ly: usize = kani::any();
        kani::assume(lx <= 2 && ly <= 2 && x[0] < 128 && x[1] < 128 && y[0] < 128 && y[1] < 128);
        let a = unsafe { std::str::from_utf8_unchecked(&x[..lx]) };
        let b = unsafe { std::str::from_utf8_unchecked(&y[..ly]) };
        let o = konst::cmp_str(a, b);
        assert!((o == std::cmp::Ordering::Less) == (a.as_bytes() < b.as_bytes()));
        assert!((o == std::cmp::Ordering::Greater) == (a.as_bytes() > b.as_bytes()));
        assert!(konst::eq_str(a, b) == same_bytes(a, b));
        kani::cover!(true, "end of harness reachable");
    }
}
