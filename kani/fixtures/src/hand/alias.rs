//! fx_alias: two interfaces whose module paths end in the SAME segment, told apart by `as` aliases, attached in
//! both orders (C14: reordering interface declarations never changes routing or the set of accepted messages).
#![allow(unused_imports, unused_variables, dead_code)]
use crate::support::*;
use cosmwasm_std::{Response, StdError};
use sylvia::ctx::{ExecCtx, InstantiateCtx, QueryCtx};

pub mod v1 {
    pub mod dup {
        use crate::support::*;
        use cosmwasm_std::{Response, StdError};
        use sylvia::ctx::ExecCtx;
        #[sylvia::interface]
        #[sv::custom(msg=cosmwasm_std::Empty, query=cosmwasm_std::Empty)]
        pub trait Dup {
            type Error: From<StdError>;
            #[sv::msg(exec)]
            fn one_exec(&self, ctx: ExecCtx, a: u64) -> Result<Response, Self::Error>;
        }
    }
}
pub mod v2 {
    pub mod dup {
        use crate::support::*;
        use cosmwasm_std::{Response, StdError};
        use sylvia::ctx::ExecCtx;
        #[sylvia::interface]
        #[sv::custom(msg=cosmwasm_std::Empty, query=cosmwasm_std::Empty)]
        pub trait Dup {
            type Error: From<StdError>;
            #[sv::msg(exec)]
            fn two_exec(&self, ctx: ExecCtx, a: u64) -> Result<Response, Self::Error>;
        }
    }
}

macro_rules! contract_body {
    ($name:ident) => {
        impl v1::dup::Dup for $name {
            type Error = Echo;
            fn one_exec(&self, ctx: ExecCtx, a: u64) -> Result<Response, Echo> {
                self.calls.hit(1);
                let mut o = Obs::new(1);
                o.args[0] = a;
                Err(Echo::H(o))
            }
        }
        impl v2::dup::Dup for $name {
            type Error = Echo;
            fn two_exec(&self, ctx: ExecCtx, a: u64) -> Result<Response, Echo> {
                self.calls.hit(2);
                let mut o = Obs::new(2);
                o.args[0] = a;
                Err(Echo::H(o))
            }
        }
    };
}

pub mod order_a {
    use super::*;
    pub struct AliasA {
        pub calls: Calls,
    }
    #[sylvia::contract]
    #[sv::error(Echo)]
    #[sv::messages(crate::hand::alias::v1::dup as DupOne)]
    #[sv::messages(crate::hand::alias::v2::dup as DupTwo)]
    impl AliasA {
        pub const fn new() -> Self {
            AliasA { calls: Calls::new() }
        }
        #[sv::msg(instantiate)]
        fn instantiate(&self, ctx: InstantiateCtx) -> Result<Response, Echo> {
            Err(Echo::Std)
        }
    }
    contract_body!(AliasA);
}
pub mod order_b {
    use super::*;
    pub struct AliasB {
        pub calls: Calls,
    }
    #[sylvia::contract]
    #[sv::error(Echo)]
    #[sv::messages(crate::hand::alias::v2::dup as DupTwo)]
    #[sv::messages(crate::hand::alias::v1::dup as DupOne)]
    impl AliasB {
        pub const fn new() -> Self {
            AliasB { calls: Calls::new() }
        }
        #[sv::msg(instantiate)]
        fn instantiate(&self, ctx: InstantiateCtx) -> Result<Response, Echo> {
            Err(Echo::Std)
        }
    }
    contract_body!(AliasB);
}

#[cfg(kani)]
pub mod proofs {
    use super::*;
    use cosmwasm_std::{DepsMut, Empty, QuerierWrapper};
    use std::cell::Cell;

    macro_rules! routes {
        ($fname:ident, $m:ident, $c:ident) => {
            #[kani::proof]
            #[kani::unwind(4)]
            #[kani::stub(alloc::fmt::format, fmt_stub)]
            #[kani::stub(std::backtrace::Backtrace::capture, bt_stub)]
            fn $fname() {
                let mut s = S(Cell::new(77)); let a = A(Cell::new(0)); let q = Q(Cell::new(0));
                let x: u64 = kani::any(); let which: bool = kani::any();
                let c = $m::$c::new();
                let deps = DepsMut { storage: &mut s, api: &a, querier: QuerierWrapper::<Empty>::new(&q) };
                let msg: $m::sv::ContractExecMsg = if which { v1::dup::sv::ExecMsg::OneExec { a: x }.into() } else { v2::dup::sv::ExecMsg::TwoExec { a: x }.into() };
                let r = core::mem::ManuallyDrop::new(msg.dispatch(&c, (deps, env(1), info(1))));
                let eh = if which { 1 } else { 2 };
                match &*r {
                    Err(Echo::H(o)) => assert!(o.h == eh && o.args[0] == x),
                    _ => assert!(false),
                }
                assert!(c.calls.only(eh));
                kani::cover!(true, "end of harness reachable");
            }
        };
    }
    routes!(c14_fx_alias_routes_order_a, order_a, AliasA);
    routes!(c14_fx_alias_routes_order_b, order_b, AliasB);

    #[allow(unused)]
    fn t_obligations() {
        // T-BEGIN fx_alias.T.wrapper_parts_exact_in_both_orders
        fn fa(m: order_a::sv::ContractExecMsg) { match m { order_a::sv::ContractExecMsg::DupOne(_) => {} order_a::sv::ContractExecMsg::DupTwo(_) => {} order_a::sv::ContractExecMsg::AliasA(_) => {} } }
        fn fb(m: order_b::sv::ContractExecMsg) { match m { order_b::sv::ContractExecMsg::DupOne(_) => {} order_b::sv::ContractExecMsg::DupTwo(_) => {} order_b::sv::ContractExecMsg::AliasB(_) => {} } }
        // T-END fx_alias.T.wrapper_parts_exact_in_both_orders
        // T-BEGIN fx_alias.T.accepted
        let _ = (order_a::AliasA::new(), order_b::AliasB::new());
        // T-END fx_alias.T.accepted
    }
}
