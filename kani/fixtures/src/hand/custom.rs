//! fx_custom: a contract over chain-custom message/query types that includes an interface written for the
//! empty custom types (`: custom(msg, query)`) next to a native interface (C11 generator half, C02).
#![allow(unused_imports, unused_variables, dead_code)]
use crate::support::*;
use cosmwasm_std::{CustomMsg, CustomQuery, Empty, Response, StdError};
use schemars::JsonSchema;
use serde::{Deserialize, Serialize};
use sylvia::ctx::{ExecCtx, InstantiateCtx, QueryCtx, SudoCtx};

#[derive(Clone, PartialEq, Serialize, Deserialize, Debug, JsonSchema)]
pub struct MyMsg {}
impl CustomMsg for MyMsg {}
#[derive(Clone, PartialEq, Serialize, Deserialize, Debug, JsonSchema)]
pub struct MyQuery {}
impl CustomQuery for MyQuery {}

pub mod bridged {
    use super::*;
    // written for the empty custom types
    #[sylvia::interface]
    #[sv::custom(msg=cosmwasm_std::Empty, query=cosmwasm_std::Empty)]
    pub trait Bridged {
        type Error: From<StdError>;
        #[sv::msg(exec)]
        fn br_exec(&self, ctx: ExecCtx, a: u64) -> Result<Response, Self::Error>;
        #[sv::msg(exec)]
        fn br_exec_ok(&self, ctx: ExecCtx, d: u8) -> Result<Response, Self::Error>;
        #[sv::msg(sudo)]
        fn br_sudo(&self, ctx: SudoCtx, a: u64) -> Result<Response, Self::Error>;
        #[sv::msg(query)]
        fn br_query(&self, ctx: QueryCtx, a: u64) -> Result<u64, Self::Error>;
    }
}
pub mod native {
    use super::*;
    #[sylvia::interface]
    #[sv::custom(msg=MyMsg, query=MyQuery)]
    pub trait Native {
        type Error: From<StdError>;
        #[sv::msg(exec)]
        fn na_exec(&self, ctx: ExecCtx<MyQuery>, a: u64) -> Result<Response<MyMsg>, Self::Error>;
    }
}

pub struct Cust {
    pub calls: Calls,
}

#[sylvia::entry_points]
#[sylvia::contract]
#[sv::error(Echo)]
#[sv::custom(msg=MyMsg, query=MyQuery)]
#[sv::messages(bridged: custom(msg, query))]
#[sv::messages(native)]
impl Cust {
    pub const fn new() -> Self {
        Cust { calls: Calls::new() }
    }
    #[sv::msg(instantiate)]
    fn instantiate(&self, ctx: InstantiateCtx<MyQuery>) -> Result<Response<MyMsg>, Echo> {
        Err(Echo::Std)
    }
    #[sv::msg(exec)]
    fn own_exec(&self, ctx: ExecCtx<MyQuery>, a: u64) -> Result<Response<MyMsg>, Echo> {
        self.calls.hit(1);
        ctx.deps.storage.set(b"k", &[1]);
        let mut o = Obs::new(1);
        o.args[0] = a;
        o.height = ctx.env.block.height;
        o.sender_len = ctx.info.sender.as_str().len() as u64;
        Err(Echo::H(o))
    }
}

impl bridged::Bridged for Cust {
    type Error = Echo;
    fn br_exec(&self, ctx: ExecCtx, a: u64) -> Result<Response, Echo> {
        // observations travel in the response data, through IntoResponse::into_response, back to the caller
        self.calls.hit(2);
        ctx.deps.storage.set(b"k", &[2]);
        ctx.deps.api.debug("abc");
        Ok(Response::new().set_data(vec![a as u8, ctx.env.block.height as u8, ctx.info.sender.as_str().len() as u8, ctx.info.funds.len() as u8]))
    }
    fn br_exec_ok(&self, ctx: ExecCtx, d: u8) -> Result<Response, Echo> {
        self.calls.hit(5);
        // a fire-and-forget sub-message with id, payload and gas limit set: all of it must survive the bridge
        let sub = cosmwasm_std::SubMsg {
            id: d as u64,
            payload: cosmwasm_std::Binary::new(vec![d]),
            msg: cosmwasm_std::CosmosMsg::Bank(cosmwasm_std::BankMsg::Burn { amount: vec![] }),
            gas_limit: Some(d as u64 + 1),
            reply_on: cosmwasm_std::ReplyOn::Never,
        };
        Ok(Response::new().add_submessage(sub).set_data(vec![d]))
    }
    fn br_sudo(&self, ctx: SudoCtx, a: u64) -> Result<Response, Echo> {
        self.calls.hit(3);
        ctx.deps.storage.set(b"k", &[3]);
        // no sub-messages, but an event and an attribute: they must survive the bridge as well
        Ok(Response::new().add_event(cosmwasm_std::Event::new("e")).add_attribute("k", "v").set_data(vec![a as u8, ctx.env.block.height as u8]))
    }
    fn br_query(&self, ctx: QueryCtx, a: u64) -> Result<u64, Echo> {
        self.calls.hit(4);
        let _ = ctx.deps.storage.get(&[4]);
        let mut o = Obs::new(4);
        o.args[0] = a;
        o.height = ctx.env.block.height;
        Err(Echo::H(o))
    }
}
impl native::Native for Cust {
    type Error = Echo;
    fn na_exec(&self, ctx: ExecCtx<MyQuery>, a: u64) -> Result<Response<MyMsg>, Echo> {
        self.calls.hit(6);
        ctx.deps.storage.set(b"k", &[6]);
        let mut o = Obs::new(6);
        o.args[0] = a;
        o.height = ctx.env.block.height;
        o.sender_len = ctx.info.sender.as_str().len() as u64;
        Err(Echo::H(o))
    }
}

#[cfg(kani)]
pub mod proofs {
    use super::*;
    use cosmwasm_std::{Addr, Binary, Deps, DepsMut, Env, MessageInfo, QuerierWrapper};
    use std::cell::Cell;

    macro_rules! setup {
        ($s:ident, $a:ident, $q:ident, $h:ident, $sl:ident) => {
            let mut $s = S(Cell::new(77));
            let $a = A(Cell::new(0));
            let $q = Q(Cell::new(0));
            let $h: u64 = kani::any();
            let $sl: u8 = kani::any();
            kani::assume($sl <= 2);
        };
    }

    /// bridged exec (`: custom(msg, query)`): the Empty-typed handler sees the caller's storage, api, env and sender,
    /// and its response (here: data carrying those observations) reaches the caller through into_response
    #[kani::proof]
    #[kani::unwind(6)]
    #[kani::stub(alloc::fmt::format, fmt_stub)]
    #[kani::stub(std::backtrace::Backtrace::capture, bt_stub)]
    fn c11_fx_custom_bridged_exec_ctx() {
        setup!(s, a, q, h, sl);
        let x: u64 = kani::any();
        let c = Cust::new();
        let deps = DepsMut { storage: &mut s, api: &a, querier: QuerierWrapper::<MyQuery>::new(&q) };
        let msg: sv::ContractExecMsg = bridged::sv::ExecMsg::BrExec { a: x }.into();
        let r = core::mem::ManuallyDrop::new(msg.dispatch(&c, (deps, env(h), info(sl))));
        match &*r {
            Ok(resp) => {
                assert!(resp.messages.is_empty() && resp.attributes.is_empty() && resp.events.is_empty());
                match &resp.data {
                    Some(b) => {
                        let b = b.as_slice();
                        assert!(b.len() == 4 && b[0] == x as u8 && b[1] == h as u8 && b[2] == sl && b[3] == 0);
                    }
                    None => assert!(false),
                }
            }
            _ => assert!(false),
        }
        assert!(c.calls.only(2));
        assert!(s.0.get() == 2 && a.0.get() == 4);
        kani::cover!(true, "end of harness reachable");
    }
    #[kani::proof]
    #[kani::unwind(6)]
    #[kani::stub(alloc::fmt::format, fmt_stub)]
    #[kani::stub(std::backtrace::Backtrace::capture, bt_stub)]
    fn c11_fx_custom_bridged_sudo_ctx() {
        setup!(s, a, q, h, sl);
        let x: u64 = kani::any();
        let c = Cust::new();
        let deps = DepsMut { storage: &mut s, api: &a, querier: QuerierWrapper::<MyQuery>::new(&q) };
        let msg: sv::ContractSudoMsg = bridged::sv::SudoMsg::BrSudo { a: x }.into();
        let r = core::mem::ManuallyDrop::new(msg.dispatch(&c, (deps, env(h))));
        match &*r {
            Ok(resp) => {
                match &resp.data {
                    Some(b) => {
                        let b = b.as_slice();
                        assert!(b.len() == 2 && b[0] == x as u8 && b[1] == h as u8);
                    }
                    None => assert!(false),
                }
                assert!(resp.messages.is_empty() && resp.events.len() == 1 && resp.attributes.len() == 1);
            }
            _ => assert!(false),
        }
        assert!(c.calls.only(3));
        assert!(s.0.get() == 3);
        kani::cover!(true, "end of harness reachable");
    }
    #[kani::proof]
    #[kani::unwind(4)]
    #[kani::stub(alloc::fmt::format, fmt_stub)]
    #[kani::stub(std::backtrace::Backtrace::capture, bt_stub)]
    fn c11_fx_custom_bridged_query_ctx() {
        setup!(s, a, q, h, sl);
        let x: u64 = kani::any();
        let c = Cust::new();
        let deps = Deps { storage: &s, api: &a, querier: QuerierWrapper::<MyQuery>::new(&q) };
        let msg: sv::ContractQueryMsg = bridged::sv::QueryMsg::BrQuery { a: x }.into();
        let r = core::mem::ManuallyDrop::new(msg.dispatch(&c, (deps, env(h))));
        match &*r {
            Err(Echo::H(o)) => assert!(o.h == 4 && o.args[0] == x && o.height == h),
            _ => assert!(false),
        }
        assert!(c.calls.only(4));
        assert!(s.0.get() == 1004);
        kani::cover!(true, "end of harness reachable");
    }
    /// native interface handler and the contract's own handler in the same contract (one harness each)
    #[kani::proof]
    #[kani::unwind(4)]
    #[kani::stub(alloc::fmt::format, fmt_stub)]
    #[kani::stub(std::backtrace::Backtrace::capture, bt_stub)]
    fn c11_fx_custom_native_exec_ctx() {
        setup!(s, a, q, h, sl);
        let x: u64 = kani::any();
        let c = Cust::new();
        let deps = DepsMut { storage: &mut s, api: &a, querier: QuerierWrapper::<MyQuery>::new(&q) };
        let msg: sv::ContractExecMsg = native::sv::ExecMsg::NaExec { a: x }.into();
        let r = core::mem::ManuallyDrop::new(msg.dispatch(&c, (deps, env(h), info(sl))));
        match &*r {
            Err(Echo::H(o)) => assert!(o.h == 6 && o.args[0] == x && o.height == h && o.sender_len == sl as u64),
            _ => assert!(false),
        }
        assert!(c.calls.only(6));
        assert!(s.0.get() == 6);
        kani::cover!(true, "end of harness reachable");
    }
    #[kani::proof]
    #[kani::unwind(4)]
    #[kani::stub(alloc::fmt::format, fmt_stub)]
    #[kani::stub(std::backtrace::Backtrace::capture, bt_stub)]
    fn c11_fx_custom_own_exec_ctx() {
        setup!(s, a, q, h, sl);
        let x: u64 = kani::any();
        let c = Cust::new();
        let deps = DepsMut { storage: &mut s, api: &a, querier: QuerierWrapper::<MyQuery>::new(&q) };
        let msg: sv::ContractExecMsg = sv::ExecMsg::OwnExec { a: x }.into();
        let r = core::mem::ManuallyDrop::new(msg.dispatch(&c, (deps, env(h), info(sl))));
        match &*r {
            Err(Echo::H(o)) => assert!(o.h == 1 && o.args[0] == x && o.height == h && o.sender_len == sl as u64),
            _ => assert!(false),
        }
        assert!(c.calls.only(1));
        assert!(s.0.get() == 1);
        kani::cover!(true, "end of harness reachable");
    }
    /// bridged Ok path: the Empty-typed response reaches the caller through into_response with its data intact
    #[kani::proof]
    #[kani::unwind(4)]
    #[kani::stub(alloc::fmt::format, fmt_stub)]
    #[kani::stub(std::backtrace::Backtrace::capture, bt_stub)]
    fn c11_fx_custom_bridged_ok_response() {
        setup!(s, a, q, h, sl);
        let d: u8 = kani::any();
        let c = Cust::new();
        let deps = DepsMut { storage: &mut s, api: &a, querier: QuerierWrapper::<MyQuery>::new(&q) };
        let msg: sv::ContractExecMsg = bridged::sv::ExecMsg::BrExecOk { d }.into();
        let r = core::mem::ManuallyDrop::new(msg.dispatch(&c, (deps, env(h), info(sl))));
        match &*r {
            Ok(resp) => {
                assert!(resp.attributes.is_empty() && resp.events.is_empty());
                match &resp.data {
                    Some(b) => assert!(b.as_slice().len() == 1 && b.as_slice()[0] == d),
                    None => assert!(false),
                }
                assert!(resp.messages.len() == 1);
                let m = &resp.messages[0];
                assert!(m.id == d as u64 && m.gas_limit == Some(d as u64 + 1));
                assert!(matches!(m.reply_on, cosmwasm_std::ReplyOn::Never));
                assert!(m.payload.as_slice().len() == 1 && m.payload.as_slice()[0] == d);
                assert!(matches!(&m.msg, cosmwasm_std::CosmosMsg::Bank(cosmwasm_std::BankMsg::Burn { .. })));
            }
            _ => assert!(false),
        }
        assert!(c.calls.only(5));
        kani::cover!(true, "end of harness reachable");
    }

    #[allow(unused)]
    fn t_obligations() {
        // T-BEGIN fx_custom.T.wrapper_dispatch_types
        let _: fn(sv::ContractExecMsg, &Cust, (DepsMut<MyQuery>, Env, MessageInfo)) -> Result<Response<MyMsg>, Echo> = sv::ContractExecMsg::dispatch;
        let _: fn(sv::ContractSudoMsg, &Cust, (DepsMut<MyQuery>, Env)) -> Result<Response<MyMsg>, Echo> = sv::ContractSudoMsg::dispatch;
        let _: fn(sv::ContractQueryMsg, &Cust, (Deps<MyQuery>, Env)) -> Result<Binary, Echo> = sv::ContractQueryMsg::dispatch;
        // T-END fx_custom.T.wrapper_dispatch_types
        // T-BEGIN fx_custom.T.entry_point_types
        let _: fn(DepsMut<MyQuery>, Env, MessageInfo, sv::ContractExecMsg) -> Result<Response<MyMsg>, Echo> = entry_points::execute;
        let _: fn(DepsMut<MyQuery>, Env, sv::ContractSudoMsg) -> Result<Response<MyMsg>, Echo> = entry_points::sudo;
        // T-END fx_custom.T.entry_point_types
    }
}
