//! Hand-written fixtures and K harnesses.
#[cfg(feature = "g_runtime")]
pub mod runtime;
#[cfg(feature = "g_custom")]
pub mod custom;
#[cfg(feature = "g_generic")]
pub mod generic;
#[cfg(feature = "g_attr")]
pub mod attr;
#[cfg(feature = "g_exec")]
pub mod exec;
#[cfg(feature = "g_alias")]
pub mod alias;
