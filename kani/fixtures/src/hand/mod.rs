//! Hand-written K harnesses: contracts stated on real run-time functions of the `sylvia` crate.
#[cfg(feature = "g_runtime")]
pub mod runtime;
