//! fx_attr: forwarded attributes (C17): sv::msg_attr on one kind only, sv::attr on one handler,
//! #[serde(default)] on one argument.
#![allow(unused_imports, unused_variables, dead_code)]
use crate::support::*;
use cosmwasm_std::{Response, StdError};
use sylvia::ctx::{ExecCtx, InstantiateCtx, QueryCtx, SudoCtx};

pub struct AttrC;

#[sylvia::contract]
#[sv::error(Echo)]
#[sv::msg_attr(exec, derive(PartialOrd))]
#[sv::msg_attr(instantiate, derive(PartialOrd))]
// a second attribute for exec, separated from the first by another kind's line
#[sv::msg_attr(exec, serde(deny_unknown_fields))]
// forwarded to the reply kind: there is no generated reply message type, so it must land on NO type
#[sv::msg_attr(reply, derive(PartialOrd))]
impl AttrC {
    pub const fn new() -> Self {
        AttrC
    }
    #[sv::msg(instantiate)]
    fn instantiate(&self, ctx: InstantiateCtx, seed: u64) -> Result<Response, Echo> {
        Err(Echo::Std)
    }
    #[sv::msg(exec)]
    #[sv::attr(serde(rename = "renamed_on_wire"))]
    fn original_name(&self, ctx: ExecCtx, a: u64) -> Result<Response, Echo> {
        Err(Echo::Std)
    }
    #[sv::msg(exec)]
    fn with_default(&self, ctx: ExecCtx, must: u64, #[serde(default)] may: u64) -> Result<Response, Echo> {
        Err(Echo::Std)
    }
    // forwarded attribute written ABOVE the sv::msg line
    #[sv::attr(serde(rename = "above_msg_line"))]
    #[sv::msg(exec)]
    fn attr_first(&self, ctx: ExecCtx, a: u64) -> Result<Response, Echo> {
        Err(Echo::Std)
    }
    #[sv::msg(query)]
    fn plain_query(&self, ctx: QueryCtx, a: u64) -> Result<u64, Echo> {
        Err(Echo::Std)
    }
    #[sv::msg(sudo)]
    fn plain_sudo(&self, ctx: SudoCtx, a: u64) -> Result<Response, Echo> {
        Err(Echo::Std)
    }
}

pub mod fieldless {
    //! instantiate / migrate WITHOUT arguments: attributes forwarded to those kinds still land on the (empty) structs
    use super::*;
    pub struct AttrD;
    #[sylvia::contract]
    #[sv::error(Echo)]
    #[sv::msg_attr(instantiate, derive(PartialOrd))]
    #[sv::msg_attr(migrate, derive(PartialOrd))]
    impl AttrD {
        pub const fn new() -> Self {
            AttrD
        }
        #[sv::msg(instantiate)]
        fn instantiate(&self, ctx: InstantiateCtx) -> Result<Response, Echo> {
            Err(Echo::Std)
        }
        #[sv::msg(migrate)]
        fn migrate(&self, ctx: sylvia::ctx::MigrateCtx) -> Result<Response, Echo> {
            Err(Echo::Std)
        }
    }
}

// ---- const-evaluated type-level obligations: at module level, outside cfg(kani), decided by a native `cargo check`
// (kani-compiler does not evaluate unused constants).  Trait-impl presence / absence by autoref specialisation.
struct Probe<T>(core::marker::PhantomData<T>);
trait NoPartialOrd { const HAS: bool = false; }
impl<T> NoPartialOrd for Probe<T> {}
impl<T: PartialOrd> Probe<T> { const HAS: bool = true; }
// T-BEGIN fx_attr.T.msg_attr_lands_on_designated_kinds_only
const _: () = assert!(Probe::<sv::ExecMsg>::HAS);
const _: () = assert!(Probe::<sv::InstantiateMsg>::HAS);
const _: () = assert!(!Probe::<sv::QueryMsg>::HAS);
const _: () = assert!(!Probe::<sv::SudoMsg>::HAS);
const _: () = assert!(!Probe::<sv::ContractExecMsg>::HAS);
// T-END fx_attr.T.msg_attr_lands_on_designated_kinds_only
// T-BEGIN fx_attr.T.msg_attr_on_fieldless_struct_messages
const _: () = assert!(Probe::<fieldless::sv::InstantiateMsg>::HAS);
const _: () = assert!(Probe::<fieldless::sv::MigrateMsg>::HAS);
// T-END fx_attr.T.msg_attr_on_fieldless_struct_messages

#[cfg(kani)]
pub mod proofs {
    use super::*;

    /// sv::attr(serde(rename=..)) lands on that handler's variant only
    #[kani::proof]
    #[kani::unwind(20)]
    fn c17_fx_attr_renamed_variant() {
        use serde::Serialize;
        let x: u64 = kani::any();
        let sh = sv::ExecMsg::OriginalName { a: x }.serialize(rec::Rec).unwrap();
        assert!(sh.kind == 2 && sh.variant == "renamed_on_wire" && sh.n == 1 && sh.keys[0] == "a" && sh.vals[0] == x);
        let y: u64 = kani::any();
        let sh2 = sv::ExecMsg::WithDefault { must: x, may: y }.serialize(rec::Rec).unwrap();
        assert!(sh2.variant == "with_default" && sh2.n == 2 && sh2.keys[0] == "must" && sh2.keys[1] == "may");
        kani::cover!(true, "end of harness reachable");
    }
    /// the argument carrying #[serde(default)] may be absent on the wire; every other argument may not
    #[kani::proof]
    #[kani::unwind(20)]
    fn c17_fx_attr_default_field() {
        use serde::Deserialize;
        let x: u64 = kani::any(); let y: u64 = kani::any();
        let only_must: [(&str, script::Sv); 1] = [("must", script::Sv::U(x))];
        match sv::ExecMsg::deserialize(script::ED { key: "with_default", fields: &only_must }) {
            Ok(sv::ExecMsg::WithDefault { must, may }) => assert!(must == x && may == 0),
            _ => assert!(false),
        }
        let both: [(&str, script::Sv); 2] = [("must", script::Sv::U(x)), ("may", script::Sv::U(y))];
        match sv::ExecMsg::deserialize(script::ED { key: "with_default", fields: &both }) {
            Ok(sv::ExecMsg::WithDefault { must, may }) => assert!(must == x && may == y),
            _ => assert!(false),
        }
        let only_may: [(&str, script::Sv); 1] = [("may", script::Sv::U(y))];
        assert!(sv::ExecMsg::deserialize(script::ED { key: "with_default", fields: &only_may }).is_err());
        // the renamed variant is reachable under its new name only
        let a: [(&str, script::Sv); 1] = [("a", script::Sv::U(x))];
        assert!(sv::ExecMsg::deserialize(script::ED { key: "original_name", fields: &a }).is_err());
        match sv::ExecMsg::deserialize(script::ED { key: "renamed_on_wire", fields: &a }) {
            Ok(sv::ExecMsg::OriginalName { a }) => assert!(a == x),
            _ => assert!(false),
        }
        // sv::attr written above the sv::msg line is forwarded just the same
        match sv::ExecMsg::deserialize(script::ED { key: "above_msg_line", fields: &a }) {
            Ok(sv::ExecMsg::AttrFirst { a }) => assert!(a == x),
            _ => assert!(false),
        }
        assert!(sv::ExecMsg::deserialize(script::ED { key: "attr_first", fields: &a }).is_err());
        // the second, non-adjacent sv::msg_attr(exec, ..) line is forwarded too: unknown fields are denied on
        // ExecMsg and on no other kind
        let surplus: [(&str, script::Sv); 2] = [("a", script::Sv::U(x)), ("zzz", script::Sv::U(y))];
        assert!(sv::ExecMsg::deserialize(script::ED { key: "renamed_on_wire", fields: &surplus }).is_err());
        match sv::SudoMsg::deserialize(script::ED { key: "plain_sudo", fields: &surplus }) {
            Ok(sv::SudoMsg::PlainSudo { a }) => assert!(a == x),
            _ => assert!(false),
        }
        // and a field of a message of another kind is NOT optional
        let none: [(&str, script::Sv); 0] = [];
        assert!(sv::SudoMsg::deserialize(script::ED { key: "plain_sudo", fields: &none }).is_err());
        kani::cover!(true, "end of harness reachable");
    }

    #[allow(unused)]
    fn t_obligations() {
        // T-BEGIN fx_attr.T.accepted
        let _ = AttrC::new();
        // T-END fx_attr.T.accepted
    }
}
