//! fx_generic: generic contract + interface with associated types (C15).
//! Type parameters deliberately avoid the letters C and D (DESIGN.md §5 item 5).
#![allow(unused_imports, unused_variables, dead_code)]
use crate::support::*;
use cosmwasm_std::{Response, StdError};
use serde::{de::DeserializeOwned, Serialize};
use std::marker::PhantomData;
use sylvia::ctx::{ExecCtx, InstantiateCtx, QueryCtx, SudoCtx};

/// A: used directly in exec; B: only inside a top-level tuple `(Vec<Option<B>>, u8)` in sudo; W: only inside
/// `std::vec::Vec<W>` (a module-qualified path) in exec; R: only as a query response; U: unused;
/// V: only as the explicit `resp=` type of a query; I: only in the instantiate message, and mentioned by A's predicate.
pub struct Gen<A, B, R, U, V, I, W> {
    pub calls: Calls,
    _p: PhantomData<(A, B, R, U, V, I, W)>,
}

pub type GenResult<X> = Result<X, Echo>;
pub trait Pair<X> {}
impl<X, Y> Pair<X> for Y {}
pub trait Small: Into<u64> + Copy {}
impl Small for u32 {}
impl Small for u8 {}

#[sylvia::contract]
#[sv::error(Echo)]
impl<A, B, R, U, V, I, W> Gen<A, B, R, U, V, I, W>
where
    // A's predicate also mentions I (used by instantiate only): it must not leak onto InstantiateMsg<I>
    A: Serialize + DeserializeOwned + std::fmt::Debug + Clone + PartialEq + schemars::JsonSchema + Small + Pair<I> + 'static,
    I: Serialize + DeserializeOwned + std::fmt::Debug + Clone + PartialEq + schemars::JsonSchema + 'static,
    // W occurs ONLY inside a module-qualified generic type (`std::vec::Vec<W>`) of an exec argument
    W: Serialize + DeserializeOwned + std::fmt::Debug + Clone + PartialEq + schemars::JsonSchema + 'static,
    // B's predicate also mentions the unused U: it must not leak onto SudoMsg<B>
    B: Serialize + DeserializeOwned + std::fmt::Debug + Clone + PartialEq + schemars::JsonSchema + Pair<U> + 'static,
    R: Serialize + DeserializeOwned + std::fmt::Debug + Clone + PartialEq + schemars::JsonSchema + From<u8> + 'static,
    U: 'static,
    // V occurs ONLY as the explicit resp= type of a query
    V: Serialize + DeserializeOwned + std::fmt::Debug + Clone + PartialEq + schemars::JsonSchema + 'static,
{
    pub const fn new() -> Self {
        Gen { calls: Calls::new(), _p: PhantomData }
    }
    #[sv::msg(instantiate)]
    fn instantiate(&self, ctx: InstantiateCtx, seed: u64, init: I) -> Result<Response, Echo> {
        self.calls.hit(1);
        let mut o = Obs::new(1);
        o.args[0] = seed;
        Err(Echo::H(o))
    }
    #[sv::msg(exec)]
    fn g_exec(&self, ctx: ExecCtx, a: A, n: u64) -> Result<Response, Echo> {
        self.calls.hit(2);
        ctx.deps.storage.set(b"k", &[2]);
        let mut o = Obs::new(2);
        o.args[0] = a.into();
        o.args[1] = n;
        o.height = ctx.env.block.height;
        Err(Echo::H(o))
    }
    #[sv::msg(exec)]
    fn g_plain(&self, ctx: ExecCtx, n: u64, tags: std::vec::Vec<W>) -> Result<Response, Echo> {
        self.calls.hit(3);
        let mut o = Obs::new(3);
        o.args[0] = n;
        o.args[1] = tags.len() as u64;
        Err(Echo::H(o))
    }
    #[sv::msg(sudo)]
    fn g_sudo(&self, ctx: SudoCtx, items: (Vec<Option<B>>, u8), k: u64) -> Result<Response, Echo> {
        self.calls.hit(4);
        let mut o = Obs::new(4);
        o.args[0] = items.0.len() as u64;
        o.args[1] = k;
        Err(Echo::H(o))
    }
    #[sv::msg(query, resp=V)]
    fn g_resp_only(&self, ctx: QueryCtx, k: u64) -> GenResult<V> {
        self.calls.hit(6);
        let mut o = Obs::new(6);
        o.args[0] = k;
        Err(Echo::H(o))
    }
    #[sv::msg(query)]
    fn g_query(&self, ctx: QueryCtx, k: u64) -> Result<R, Echo> {
        self.calls.hit(5);
        let mut o = Obs::new(5);
        o.args[0] = k;
        Err(Echo::H(o))
    }
}

pub mod assoc {
    use super::*;
    /// interface with associated types: P used in exec, Q only as a query response
    #[sylvia::interface]
    #[sv::custom(msg=cosmwasm_std::Empty, query=cosmwasm_std::Empty)]
    pub trait Assoc {
        type Error: From<StdError>;
        type P: Serialize + DeserializeOwned + std::fmt::Debug + Clone + PartialEq + schemars::JsonSchema + 'static;
        type Q: Serialize + DeserializeOwned + std::fmt::Debug + Clone + PartialEq + schemars::JsonSchema + 'static;
        #[sv::msg(exec)]
        fn as_exec(&self, ctx: ExecCtx, p: Self::P, n: u64) -> Result<Response, Self::Error>;
        #[sv::msg(query)]
        fn as_query(&self, ctx: QueryCtx, n: u64) -> Result<Self::Q, Self::Error>;
    }
}

#[cfg(kani)]
pub mod proofs {
    use super::*;
    use cosmwasm_std::{Addr, Deps, DepsMut, Empty, Env, MessageInfo, QuerierWrapper};
    use std::cell::Cell;

    /// dispatch on an instantiation behaves like the non-generic case
    #[kani::proof]
    #[kani::unwind(4)]
    #[kani::stub(alloc::fmt::format, fmt_stub)]
    #[kani::stub(std::backtrace::Backtrace::capture, bt_stub)]
    fn c15_fx_generic_dispatch_exec() {
        let mut s = S(Cell::new(77)); let a = A(Cell::new(0)); let q = Q(Cell::new(0));
        let h: u64 = kani::any(); let x: u32 = kani::any(); let n: u64 = kani::any();
        let c = Gen::<u32, u8, u8, (), u8, u16, u32>::new();
        let deps = DepsMut { storage: &mut s, api: &a, querier: QuerierWrapper::<Empty>::new(&q) };
        // the message type is named with exactly the parameter it uses
        let msg: sv::ExecMsg<u32, u32> = sv::ExecMsg::GExec { a: x, n };
        let r = core::mem::ManuallyDrop::new(msg.dispatch(&c, (deps, env(h), info(1))));
        match &*r {
            Err(Echo::H(o)) => assert!(o.h == 2 && o.args[0] == x as u64 && o.args[1] == n && o.height == h),
            _ => assert!(false),
        }
        assert!(c.calls.only(2) && s.0.get() == 2);
        kani::cover!(true, "end of harness reachable");
    }
    #[kani::proof]
    #[kani::unwind(4)]
    #[kani::stub(alloc::fmt::format, fmt_stub)]
    #[kani::stub(std::backtrace::Backtrace::capture, bt_stub)]
    fn c15_fx_generic_dispatch_other_instantiation() {
        let mut s = S(Cell::new(77)); let a = A(Cell::new(0)); let q = Q(Cell::new(0));
        let x: u8 = kani::any(); let n: u64 = kani::any(); let k: u64 = kani::any();
        let c = Gen::<u8, u32, u8, String, u8, u16, u8>::new();
        {
            let deps = DepsMut { storage: &mut s, api: &a, querier: QuerierWrapper::<Empty>::new(&q) };
            let msg: sv::ExecMsg<u8, u8> = sv::ExecMsg::GExec { a: x, n };
            let r = core::mem::ManuallyDrop::new(msg.dispatch(&c, (deps, env(1), info(1))));
            match &*r {
                Err(Echo::H(o)) => assert!(o.h == 2 && o.args[0] == x as u64 && o.args[1] == n),
                _ => assert!(false),
            }
        }
        {
            let deps = Deps { storage: &s, api: &a, querier: QuerierWrapper::<Empty>::new(&q) };
            let msg: sv::QueryMsg<u8, u8> = sv::QueryMsg::GQuery { k };
            let r = core::mem::ManuallyDrop::new(msg.dispatch(&c, (deps, env(1))));
            match &*r {
                Err(Echo::H(o)) => assert!(o.h == 5 && o.args[0] == k),
                _ => assert!(false),
            }
        }
        kani::cover!(true, "end of harness reachable");
    }
    /// wire shape of a generic message = the non-generic case
    #[kani::proof]
    #[kani::unwind(8)]
    fn c15_fx_generic_shape() {
        use serde::Serialize;
        let x: u32 = kani::any(); let n: u64 = kani::any();
        let m: sv::ExecMsg<u32, u32> = sv::ExecMsg::GExec { a: x, n };
        let sh = m.serialize(rec::Rec).unwrap();
        assert!(sh.kind == 2 && sh.variant == "g_exec" && sh.n == 2);
        assert!(sh.keys[0] == "a" && sh.vals[0] == x as u64 && sh.keys[1] == "n" && sh.vals[1] == n);
        kani::cover!(true, "end of harness reachable");
    }

    /// the helper variant that carries the type parameters is not part of the wire format:
    /// no key spelled like it is accepted by a generic message type (exec, sudo, query)
    #[kani::proof]
    #[kani::unwind(12)]
    fn c15_fx_generic_phantom_not_on_wire() {
        use serde::Deserialize;
        let none: [(&str, script::Sv); 0] = [];
        let pick: u8 = kani::any();
        kani::assume(pick < 4);
        let key = match pick { 0 => "__phantom", 1 => "_phantom", 2 => "phantom", _ => "_Phantom" };
        assert!(sv::ExecMsg::<u32, u32>::deserialize(script::ED { key, fields: &none }).is_err());
        assert!(sv::SudoMsg::<u8>::deserialize(script::ED { key, fields: &none }).is_err());
        assert!(sv::QueryMsg::<u8, u8>::deserialize(script::ED { key, fields: &none }).is_err());
        kani::cover!(true, "end of harness reachable");
    }

    // a type satisfying ONLY the bounds that mention A alone — and nothing about B, R, U
    #[derive(serde::Serialize, serde::Deserialize, Debug, Clone, Copy, PartialEq, schemars::JsonSchema)]
    pub struct OnlyA(pub u8);
    impl From<OnlyA> for u64 { fn from(v: OnlyA) -> u64 { v.0 as u64 } }
    impl Small for OnlyA {}
    #[derive(serde::Serialize, serde::Deserialize, Debug, Clone, PartialEq, schemars::JsonSchema)]
    pub struct OnlyB;
    #[derive(serde::Serialize, serde::Deserialize, Debug, Clone, PartialEq, schemars::JsonSchema)]
    pub struct OnlyR;
    impl From<u8> for OnlyR { fn from(_: u8) -> Self { OnlyR } }

    #[allow(unused)]
    fn t_obligations() {
        fn enc<X: serde::Serialize + serde::de::DeserializeOwned + schemars::JsonSchema>() {}
        // T-BEGIN fx_generic.T.exec_msg_params_exact
        // ExecMsg carries exactly A and W and can be built with a type that satisfies only those parameters' own bounds
        // (two parameters, A and W, both instantiated with the same type: their order is not part of the property)
        let m: sv::ExecMsg<OnlyA, OnlyA> = sv::ExecMsg::GExec { a: OnlyA(1), n: 2 };
        let p: sv::ExecMsg<OnlyA, OnlyA> = sv::ExecMsg::GPlain { n: 2, tags: vec![OnlyA(3)] };
        // T-END fx_generic.T.exec_msg_params_exact
        // T-BEGIN fx_generic.T.sudo_msg_params_exact
        let m: sv::SudoMsg<OnlyB> = sv::SudoMsg::GSudo { items: (vec![None, Some(OnlyB)], 0), k: 1 };
        // T-END fx_generic.T.sudo_msg_params_exact
        // T-BEGIN fx_generic.T.query_msg_params_exact
        // QueryMsg carries exactly two parameters, R and V (V occurs only as resp=); the order of the two is not
        // part of the property, so both are instantiated with the same type
        let m: sv::QueryMsg<OnlyR, OnlyR> = sv::QueryMsg::GQuery { k: 1 };
        let m2: sv::QueryMsg<OnlyR, OnlyR> = sv::QueryMsg::GRespOnly { k: 1 };
        // T-END fx_generic.T.query_msg_params_exact
        // T-BEGIN fx_generic.T.instantiate_msg_params_exact
        // InstantiateMsg carries exactly I, under I's own bounds only (A's predicate mentions I but is about A)
        let m: sv::InstantiateMsg<OnlyB> = sv::InstantiateMsg { seed: 1, init: OnlyB };
        enc::<sv::InstantiateMsg<OnlyB>>();
        // T-END fx_generic.T.instantiate_msg_params_exact
        // T-BEGIN fx_generic.T.messages_encodable_with_only_used_params
        enc::<sv::ExecMsg<OnlyA, OnlyA>>();
        enc::<sv::SudoMsg<OnlyB>>();
        enc::<sv::QueryMsg<OnlyR, OnlyR>>();
        // T-END fx_generic.T.messages_encodable_with_only_used_params
        // T-BEGIN fx_generic.T.accepted
        let _ = Gen::<u32, u8, u8, (), u8, u16, u32>::new();
        // T-END fx_generic.T.accepted
        // T-BEGIN fx_generic.T.assoc_iface_msg_params
        // interface with associated types: ExecMsg over P only, QueryMsg over Q only
        let m: assoc::sv::ExecMsg<OnlyB> = assoc::sv::ExecMsg::AsExec { p: OnlyB, n: 1 };
        let m: assoc::sv::QueryMsg<OnlyR> = assoc::sv::QueryMsg::AsQuery { n: 1 };
        // T-END fx_generic.T.assoc_iface_msg_params
    }
}
