//! Native differential replay for C11: runs the real `IntoResponse::into_response`
//! on an enumerated family of `Response<Empty>` values and compares the result
//! field-wise with the input.  Prints `COUNTEREXAMPLE <json>` for the first
//! response that violates the property.
#![allow(deprecated)]
use cosmwasm_std::{to_json_string, Attribute, BankMsg, Binary, CosmosMsg, CustomMsg, Empty, Event, ReplyOn, Response, SubMsg, WasmMsg};
use schemars::JsonSchema;
use serde::{Deserialize, Serialize};
use sylvia::into_response::IntoResponse;

#[derive(Serialize, Deserialize, JsonSchema, Debug, Clone, PartialEq, Eq)]
struct MyMsg {}
impl CustomMsg for MyMsg {}

fn msgs() -> Vec<(CosmosMsg<Empty>, bool)> {
    let mut v: Vec<(CosmosMsg<Empty>, bool)> = vec![
        (CosmosMsg::Bank(BankMsg::Send { to_address: "a".into(), amount: vec![] }), false),
        (CosmosMsg::Wasm(WasmMsg::ClearAdmin { contract_addr: "c".into() }), false),
        (CosmosMsg::Staking(cosmwasm_std::StakingMsg::Undelegate { validator: "v".into(), amount: cosmwasm_std::coin(1, "x") }), false),
        (CosmosMsg::Distribution(cosmwasm_std::DistributionMsg::SetWithdrawAddress { address: "w".into() }), false),
        (CosmosMsg::Custom(Empty {}), true),
    ];
    #[cfg(feature = "stargate")]
    {
        v.push((CosmosMsg::Stargate { type_url: "/t".into(), value: Binary::from(vec![1u8, 2]) }, false));
        v.push((CosmosMsg::Ibc(cosmwasm_std::IbcMsg::CloseChannel { channel_id: "ch".into() }), false));
        v.push((CosmosMsg::Gov(cosmwasm_std::GovMsg::Vote { proposal_id: 7, option: cosmwasm_std::VoteOption::Yes }), false));
    }
    #[cfg(feature = "cosmwasm_2_0")]
    {
        v.push((CosmosMsg::Any(cosmwasm_std::AnyMsg { type_url: "/u".into(), value: Binary::from(vec![3u8]) }), false));
    }
    v
}

fn subs() -> Vec<(SubMsg<Empty>, bool)> {
    let mut out = vec![];
    for (m, custom) in msgs() {
        for (k, reply_on) in [ReplyOn::Always, ReplyOn::Error, ReplyOn::Success, ReplyOn::Never].into_iter().enumerate() {
            for gas in [None, Some(0u64), Some(60_000)] {
                let s = SubMsg { id: 3 + k as u64, payload: Binary::from(vec![k as u8, 9]), msg: m.clone(), gas_limit: gas, reply_on: reply_on.clone() };
                out.push((s, custom));
            }
        }
    }
    out
}

fn check(resp: Response<Empty>, has_custom: bool) -> Option<String> {
    let input = to_json_string(&resp).unwrap();
    let r: Result<Response<MyMsg>, _> = resp.clone().into_response();
    match r {
        Err(e) => {
            if has_custom {
                None
            } else {
                Some(format!("{{\"response\":{},\"outcome\":\"Err\",\"error\":{:?},\"expected\":\"Ok (no custom-typed message present)\"}}", input, e.to_string()))
            }
        }
        Ok(o) => {
            if has_custom {
                return Some(format!("{{\"response\":{},\"outcome\":\"Ok\",\"expected\":\"Err (a custom-typed message is present)\"}}", input));
            }
            let out = to_json_string(&o).unwrap();
            // Response<Empty> and Response<MyMsg> have the same JSON when no Custom message occurs
            if out != input {
                return Some(format!("{{\"response\":{},\"outcome\":\"Ok\",\"converted\":{},\"expected\":\"converted response equal to the input field by field\"}}", input, out));
            }
            None
        }
    }
}

fn main() {
    let subs = subs();
    let mut n = 0u64;
    let attrs = vec![Attribute::new("k", "v"), Attribute::new("k2", "v2")];
    let evs = vec![Event::new("e1").add_attribute("x", "y"), Event::new("e2")];
    for nm in 0..3usize {
        for na in 0..3usize {
            for ne in 0..3usize {
                for data in [None, Some(Binary::from(vec![7u8, 8]))] {
                    let base = || {
                        let mut r = Response::<Empty>::new().add_attributes(attrs[..na.min(2)].to_vec()).add_events(evs[..ne.min(2)].to_vec());
                        r.data = data.clone();
                        r
                    };
                    match nm {
                        0 => {
                            n += 1;
                            if let Some(c) = check(base(), false) {
                                println!("COUNTEREXAMPLE {}", c);
                                return;
                            }
                        }
                        1 => {
                            for (s, c1) in &subs {
                                n += 1;
                                if let Some(c) = check(base().add_submessage(s.clone()), *c1) {
                                    println!("COUNTEREXAMPLE {}", c);
                                    return;
                                }
                            }
                        }
                        _ => {
                            for (i, (s, c1)) in subs.iter().enumerate() {
                                for (t, c2) in subs.iter().skip(i % 7).step_by(7) {
                                    n += 1;
                                    if let Some(c) = check(base().add_submessage(s.clone()).add_submessage(t.clone()), *c1 || *c2) {
                                        println!("COUNTEREXAMPLE {}", c);
                                        return;
                                    }
                                }
                            }
                        }
                    }
                }
            }
        }
    }
    println!("NO-COUNTEREXAMPLE responses_tried={}", n);
}
