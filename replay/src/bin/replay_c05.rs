//! Native search for a concrete tuple on which the real
//! `sylvia::utils::assert_no_intersection` disagrees with C05:
//!   sorted, duplicate-free lists:  returns  <=>  pairwise disjoint
//!   any lists:                     disjoint  =>  returns
//! Prints `COUNTEREXAMPLE <json>` for the first disagreement.  Used only to
//! obtain a failing input after the deductive check refuted an obligation.
use std::panic;

fn call<const N: usize>(lists: [&[&str]; N]) -> bool {
    panic::catch_unwind(|| sylvia::utils::assert_no_intersection(lists)).is_ok()
}

fn disjoint(lists: &[Vec<&'static str>]) -> bool {
    for i in 0..lists.len() {
        for j in 0..lists.len() {
            if i != j {
                for a in &lists[i] {
                    for b in &lists[j] {
                        if a == b {
                            return false;
                        }
                    }
                }
            }
        }
    }
    true
}
fn sorted_strict(l: &[&str]) -> bool {
    l.windows(2).all(|w| w[0].as_bytes() < w[1].as_bytes())
}

fn report(lists: &[Vec<&'static str>], returned: bool, why: &str) -> ! {
    let js: Vec<String> = lists.iter().map(|l| format!("[{}]", l.iter().map(|s| format!("\"{}\"", s)).collect::<Vec<_>>().join(","))).collect();
    println!("COUNTEREXAMPLE {{\"msgs\":[{}],\"returned\":{},\"expected\":\"{}\"}}", js.join(","), returned, why);
    std::process::exit(0)
}

fn main() {
    panic::set_hook(Box::new(|_| {}));
    // universe: all strings over {a,b,_} of length 0..=2 plus a few realistic names
    let mut uni: Vec<&'static str> = vec!["", "a", "b", "_", "aa", "ab", "a_", "ba", "bb", "b_", "_a", "_b", "burn", "burn_from", "mint"];
    uni.sort_by(|x, y| x.as_bytes().cmp(y.as_bytes()));
    // all subsets of size <= 3 as sorted lists, plus a few unsorted ones for the pass-A direction
    let mut lists: Vec<Vec<&'static str>> = vec![vec![]];
    for i in 0..uni.len() {
        lists.push(vec![uni[i]]);
        for j in i + 1..uni.len() {
            lists.push(vec![uni[i], uni[j]]);
            lists.push(vec![uni[j], uni[i]]); // unsorted
            for k in j + 1..uni.len() {
                if k - i <= 6 {
                    lists.push(vec![uni[i], uni[j], uni[k]]);
                }
            }
        }
    }
    let mut n = 0u64;
    // N = 1
    for a in &lists {
        let ok = call([&a[..]]);
        n += 1;
        if !ok {
            report(&[a.clone()], ok, "returns (a single list is trivially disjoint)");
        }
    }
    // N = 2
    for a in &lists {
        for b in &lists {
            let t = [a.clone(), b.clone()];
            let d = disjoint(&t);
            let s = sorted_strict(a) && sorted_strict(b);
            if !d && !s {
                continue;
            }
            let ok = call([&a[..], &b[..]]);
            n += 1;
            if d && !ok {
                report(&t, ok, "returns (no shared name)");
            }
            if s && !d && ok {
                report(&t, ok, "panics (a name is shared)");
            }
        }
    }
    // N = 3 over the short lists only
    let small: Vec<&Vec<&'static str>> = lists.iter().filter(|l| l.len() <= 2 && l.iter().all(|s| s.len() <= 1 || s.starts_with("bu"))).collect();
    for a in &small {
        for b in &small {
            for c in &small {
                let t = [(*a).clone(), (*b).clone(), (*c).clone()];
                let d = disjoint(&t);
                let s = sorted_strict(a) && sorted_strict(b) && sorted_strict(c);
                if !d && !s {
                    continue;
                }
                let ok = call([&a[..], &b[..], &c[..]]);
                n += 1;
                if d && !ok {
                    report(&t, ok, "returns (no shared name)");
                }
                if s && !d && ok {
                    report(&t, ok, "panics (a name is shared)");
                }
            }
        }
    }
    // N = 3, every sorted list of up to 3 names over {a,b,c,d,e}: exhaustive (26^3 tuples)
    let abc = ["a", "b", "c", "d", "e"];
    let mut l3: Vec<Vec<&'static str>> = vec![vec![]];
    for i in 0..5 {
        l3.push(vec![abc[i]]);
        for j in i + 1..5 {
            l3.push(vec![abc[i], abc[j]]);
            for k in j + 1..5 {
                l3.push(vec![abc[i], abc[j], abc[k]]);
            }
        }
    }
    for a in &l3 {
        for b in &l3 {
            for c in &l3 {
                let t = [a.clone(), b.clone(), c.clone()];
                let d = disjoint(&t);
                let ok = call([&a[..], &b[..], &c[..]]);
                n += 1;
                if d && !ok {
                    report(&t, ok, "returns (no shared name)");
                }
                if !d && ok {
                    report(&t, ok, "panics (a name is shared)");
                }
            }
        }
    }
    println!("NO-COUNTEREXAMPLE tuples_tried={}", n);
}
