//! Native bounded stand-in / replay for C20 (used only when a Kani obligation on Remote<T> is undecided or to
//! obtain a concrete input): JSON encoding, decoding and schema naming of `sylvia::types::Remote<T>` for a small
//! family of addresses and three type parameters.  Prints `COUNTEREXAMPLE <json>` for the first violation.
use cosmwasm_std::{from_json, to_json_string, Addr};
use schemars::{schema_for, JsonSchema};
use sylvia::types::Remote;

pub struct Fix;
pub trait Iface {
    type Error;
}
pub struct E;

#[derive(JsonSchema)]
#[allow(dead_code)]
struct Holder<'a> {
    a: Remote<'a, Fix>,
    b: Remote<'a, dyn Iface<Error = E>>,
    c: Remote<'a, ()>,
}

fn esc(s: &str) -> String {
    serde_json::to_string(s).unwrap()
}

fn main() {
    // schema naming
    let n = [<Remote<'static, Fix> as JsonSchema>::schema_name(), <Remote<'static, dyn Iface<Error = E>> as JsonSchema>::schema_name(), <Remote<'static, ()> as JsonSchema>::schema_name()];
    if n[0] != "Remote" || n[1] != n[0] || n[2] != n[0] {
        println!("COUNTEREXAMPLE {{\"clause\":\"schema_name depends on the type parameter\",\"names\":[{},{},{}]}}", esc(&n[0]), esc(&n[1]), esc(&n[2]));
        return;
    }
    let root = schema_for!(Holder);
    let defs: Vec<String> = root.definitions.keys().filter(|k| k.starts_with("Remote")).cloned().collect();
    if defs != vec!["Remote".to_string()] {
        println!("COUNTEREXAMPLE {{\"clause\":\"one root schema holding Remote<T> for three T must publish a single definition named Remote\",\"definitions\":{}}}", serde_json::to_string(&defs).unwrap());
        return;
    }
    // encoding / decoding
    let addrs = ["", "a", "cosmwasm1fsgzj6t7udv8zhf6zj32mkqhcjcpv52yph5qsdcl0qt94jgdckqs2g053y", "with space", "quote\"inside", "back\\slash", "tab\there", "ünïcode", "COSMWASM1ABC", "MixedCase"];
    for a in addrs {
        let addr = Addr::unchecked(a);
        let owned: Remote<'_, Fix> = Remote::new(addr.clone());
        let borrowed: Remote<'_, dyn Iface<Error = E>> = Remote::borrowed(&addr);
        let expect = format!("{{\"addr\":{}}}", esc(a));
        let j1 = to_json_string(&owned).unwrap();
        let j2 = to_json_string(&borrowed).unwrap();
        if j1 != expect || j2 != expect {
            println!("COUNTEREXAMPLE {{\"clause\":\"encoding is the object with the single member addr\",\"address\":{},\"owned\":{},\"borrowed\":{}}}", esc(a), esc(&j1), esc(&j2));
            return;
        }
        let back: Result<Remote<'static, ()>, _> = from_json(expect.as_bytes());
        match back {
            Ok(r) => {
                let got: &Addr = r.as_ref();
                if got.as_str() != a {
                    println!("COUNTEREXAMPLE {{\"clause\":\"decoding gives back the same address\",\"address\":{},\"decoded\":{}}}", esc(a), esc(got.as_str()));
                    return;
                }
            }
            Err(e) => {
                println!("COUNTEREXAMPLE {{\"clause\":\"decoding the encoding of a handle fails\",\"address\":{},\"error\":{}}}", esc(a), esc(&e.to_string()));
                return;
            }
        }
    }
    println!("NO-COUNTEREXAMPLE addresses_tried={}", addrs.len());
}
