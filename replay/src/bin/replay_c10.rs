//! Native bounded stand-in / replay for C10 (used only when the Verus or Kani obligations on the builder functions are
//! undecided, or to obtain a concrete input): ExecutorBuilder and InstantiateBuilder over a family of funds vectors
//! (empty, one coin, zero amount, repeated denom, unsorted denoms), labels, admins and salts.
//! Prints `COUNTEREXAMPLE <json>` for the first violation.
use cosmwasm_std::{coin, Addr, Binary, Coin, WasmMsg};
use sylvia::builder::instantiate::InstantiateBuilder;
use sylvia::types::{ExecutorBuilder, ReadyExecutorBuilderState, Remote};

pub struct Fix;

fn funds_family() -> Vec<Vec<Coin>> {
    vec![
        vec![],
        vec![coin(5, "a")],
        vec![coin(0, "a")],
        vec![coin(1, "a"), coin(2, "a")],
        vec![coin(1, "b"), coin(2, "a")],
        vec![coin(3, "z"), coin(0, "m"), coin(7, "z")],
    ]
}
fn js<T: serde::Serialize>(t: &T) -> String {
    serde_json::to_string(t).unwrap()
}

fn main() {
    let addr = Addr::unchecked("contract0");
    let remote: Remote<'_, Fix> = Remote::borrowed(&addr);
    let mut n = 0u64;
    for f1 in funds_family() {
        for f2 in funds_family() {
            n += 1;
            // with_funds sets (does not accumulate, normalise or drop): once and twice
            let b = remote.executor().with_funds(f1.clone());
            if b.funds() != &f1 || b.contract() != "contract0" {
                println!("COUNTEREXAMPLE {{\"clause\":\"ExecutorBuilder::with_funds carries exactly the given funds\",\"given\":{},\"got\":{}}}", js(&f1), js(b.funds()));
                return;
            }
            let b = b.with_funds(f2.clone());
            if b.funds() != &f2 {
                println!("COUNTEREXAMPLE {{\"clause\":\"a second with_funds replaces the first\",\"first\":{},\"second\":{},\"got\":{}}}", js(&f1), js(&f2), js(b.funds()));
                return;
            }
            let ready = ExecutorBuilder::<ReadyExecutorBuilderState>::new("contract0".to_owned(), f2.clone(), Binary::from(vec![1u8, 2]));
            match ready.build() {
                WasmMsg::Execute { contract_addr, msg, funds } if contract_addr == "contract0" && msg == Binary::from(vec![1u8, 2]) && funds == f2 => {}
                other => {
                    println!("COUNTEREXAMPLE {{\"clause\":\"build yields Execute with exactly the contract, body and funds\",\"funds\":{},\"got\":{}}}", js(&f2), js(&other));
                    return;
                }
            }
        }
    }
    // InstantiateBuilder: every order of the three setters, every subset
    let body = Binary::from(vec![9u8]);
    for funds in funds_family() {
        for mask in 0..8u8 {
            for order in [[0, 1, 2], [0, 2, 1], [1, 0, 2], [1, 2, 0], [2, 0, 1], [2, 1, 0]] {
                for salt in [vec![], vec![7u8], vec![7u8, 8]] {
                    n += 1;
                    let mk = || {
                        let mut b = InstantiateBuilder::new(body.clone(), 42);
                        for step in order {
                            if mask & (1 << step) == 0 {
                                continue;
                            }
                            b = match step {
                                0 => b.with_label("lbl"),
                                1 => b.with_admin("adm".to_owned()),
                                _ => b.with_funds(funds.clone()),
                            };
                        }
                        b
                    };
                    let exp_label = if mask & 1 != 0 { "lbl" } else { "" };
                    let exp_admin = if mask & 2 != 0 { Some("adm".to_owned()) } else { None };
                    let exp_funds = if mask & 4 != 0 { funds.clone() } else { vec![] };
                    let describe = format!("{{\"setters_applied_mask\":{},\"order\":{:?},\"funds\":{},\"salt\":{:?}}}", mask, order, js(&funds), salt);
                    match mk().build() {
                        WasmMsg::Instantiate { admin, code_id, msg, funds: f, label } if admin == exp_admin && code_id == 42 && msg == body && f == exp_funds && label == exp_label => {}
                        other => {
                            println!("COUNTEREXAMPLE {{\"clause\":\"InstantiateBuilder::build: code id, body, admin, label (empty when unset), funds\",\"input\":{},\"got\":{}}}", describe, js(&other));
                            return;
                        }
                    }
                    match mk().build2(Binary::from(salt.clone())) {
                        WasmMsg::Instantiate2 { admin, code_id, label, msg, funds: f, salt: s2 }
                            if admin == exp_admin && code_id == 42 && msg == body && f == exp_funds && label == exp_label && s2 == Binary::from(salt.clone()) => {}
                        other => {
                            println!("COUNTEREXAMPLE {{\"clause\":\"InstantiateBuilder::build2: as build plus the salt, in its salted form\",\"input\":{},\"got\":{}}}", describe, js(&other));
                            return;
                        }
                    }
                }
            }
        }
    }
    println!("NO-COUNTEREXAMPLE cases_tried={}", n);
}
