#!/bin/sh
# Run once after a fresh restore, offline: builds the extractor from files on disk only.
set -e
cd "$(dirname "$0")"
export CARGO_NET_OFFLINE=true
mkdir -p .build evidence
(cd tools/vx-extract && CARGO_TARGET_DIR="$PWD/../../.build/tools" cargo build --release --offline)
if [ -x ./tools/prebuild.sh ]; then ./tools/prebuild.sh || true; fi
echo setup done
