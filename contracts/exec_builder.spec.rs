// closed accessors: the builder's fields are private, its methods public
impl<State: ?Sized> ExecutorBuilder<State> {
    pub closed spec fn sp_contract(&self) -> String { self.contract }
    pub closed spec fn sp_funds(&self) -> Vec<Coin> { self.funds }
    pub closed spec fn sp_msg(&self) -> Binary { self.msg }
}
// the source names the dependency type by its crate path
pub mod cosmwasm_std { pub use super::Addr; }
// Binary::default(): the empty body of a builder that has not been given a message yet (content not modelled)
impl Binary {
    #[verifier::external_body]
    pub fn default() -> Binary { unimplemented!() }
}
