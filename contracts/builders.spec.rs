// Spec layer and trusted stubs for the builder units (C10): ExecutorBuilder (sylvia/src/types.rs) and
// InstantiateBuilder (sylvia/src/builder/instantiate.rs).  WasmMsg is an R7 skeleton of cosmwasm-std's enum;
// Binary, Coin, Addr are opaque (the code only moves them).

// R9: zero-argument method calls on dependency / std types become free functions with assumed contracts
pub uninterp spec fn addr_string(a: Addr) -> String;
#[verifier::external_body]
pub fn verif_to_string(a: &Addr) -> (r: String)
    ensures r == addr_string(*a),
{ unimplemented!() }

pub uninterp spec fn into_string_spec<S>(s: S) -> String;
#[verifier::external_body]
pub fn verif_into<S: Into<String>>(s: S) -> (r: String)
    ensures r == into_string_spec(s),
{ unimplemented!() }

// Option<String>::unwrap_or_default: the content, or the empty string
pub open spec fn label_or_empty(o: Option<String>, r: String) -> bool {
    match o { Some(s) => r == s, None => r@.len() == 0 }
}
#[verifier::external_body]
pub fn verif_unwrap_or_default(o: Option<String>) -> (r: String)
    ensures label_or_empty(o, r),
{ unimplemented!() }
