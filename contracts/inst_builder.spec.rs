impl InstantiateBuilder {
    pub closed spec fn sp_msg(&self) -> Binary { self.msg }
    pub closed spec fn sp_code_id(&self) -> u64 { self.code_id }
    pub closed spec fn sp_admin(&self) -> Option<String> { self.admin }
    pub closed spec fn sp_label(&self) -> Option<String> { self.label }
    pub closed spec fn sp_funds(&self) -> Vec<Coin> { self.funds }
}
