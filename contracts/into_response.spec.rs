// Spec layer and trusted dependency contracts for sylvia/src/into_response.rs (DESIGN.md §4, C11).
// Dependency types (CosmosMsg, SubMsg, ReplyOn, Response, Empty) are emitted above by R7 from
// the cosmwasm-std source; payload types are opaque (the code under proof only moves them).

#[verifier::external_body] pub struct StdError { _o: () }
pub type StdResult<T> = core::result::Result<T, StdError>;

impl StdError {
    // R6: error text is not modelled
    #[verifier::external_body]
    pub fn generic_err<S>(msg: S) -> StdError { unimplemented!() }
}
#[verifier::external_body]
pub fn verif_opaque_string() -> String { unimplemented!() }

// "same kind of message carrying the same content" — one arm per variant enabled
// by the feature set of this run (lines guarded by //@cfg are resolved by the extractor).
pub open spec fn same_payload<C>(a: CosmosMsg<Empty>, b: CosmosMsg<C>) -> bool {
    match (a, b) {
        (CosmosMsg::Bank(x), CosmosMsg::Bank(y)) => x == y,
        (CosmosMsg::Wasm(x), CosmosMsg::Wasm(y)) => x == y,
        //@cfg feature = "staking"
        (CosmosMsg::Staking(x), CosmosMsg::Staking(y)) => x == y,
        //@cfg feature = "staking"
        (CosmosMsg::Distribution(x), CosmosMsg::Distribution(y)) => x == y,
        //@cfg feature = "stargate"
        (CosmosMsg::Stargate { type_url: t1, value: v1 }, CosmosMsg::Stargate { type_url: t2, value: v2 }) => t1 == t2 && v1 == v2,
        //@cfg feature = "cosmwasm_2_0"
        (CosmosMsg::Any(x), CosmosMsg::Any(y)) => x == y,
        //@cfg feature = "stargate"
        (CosmosMsg::Ibc(x), CosmosMsg::Ibc(y)) => x == y,
        //@cfg feature = "stargate"
        (CosmosMsg::Gov(x), CosmosMsg::Gov(y)) => x == y,
        _ => false,
    }
}

// C11: "every sub-message (id, payload, gas limit, reply trigger) intact"
pub open spec fn conv_ok<C>(a: SubMsg<Empty>, b: SubMsg<C>) -> bool {
    b.id == a.id && b.gas_limit == a.gas_limit && b.reply_on == a.reply_on && b.payload == a.payload && same_payload(a.msg, b.msg)
}

// R8: trusted contracts of the cosmwasm-std Response builders (append to one field, frame on the others)
impl<T> Response<T> {
    #[verifier::external_body]
    pub fn new() -> (r: Self)
        ensures r.messages@.len() == 0, r.attributes@.len() == 0, r.events@.len() == 0, r.data is None,
    { unimplemented!() }

    #[verifier::external_body]
    pub fn add_submessages(self, msgs: Vec<SubMsg<T>>) -> (r: Self)
        ensures r.messages@ == self.messages@ + msgs@, r.attributes@ == self.attributes@, r.events@ == self.events@, r.data == self.data,
    { unimplemented!() }

    #[verifier::external_body]
    pub fn add_events(self, evs: Vec<Event>) -> (r: Self)
        ensures r.messages@ == self.messages@, r.attributes@ == self.attributes@, r.events@ == self.events@ + evs@, r.data == self.data,
    { unimplemented!() }

    #[verifier::external_body]
    pub fn add_attributes(self, attrs: Vec<Attribute>) -> (r: Self)
        ensures r.messages@ == self.messages@, r.attributes@ == self.attributes@ + attrs@, r.events@ == self.events@, r.data == self.data,
    { unimplemented!() }
}

// R5: trusted contract for `v.into_iter().map(f).collect::<Result<Vec<_>, _>>()`
#[verifier::external_body]
pub fn verif_try_map_collect<A, B, E, F: Fn(A) -> Result<B, E>>(v: Vec<A>, f: F) -> (r: Result<Vec<B>, E>)
    requires forall |i: int| 0 <= i < v@.len() ==> f.requires((#[trigger] v@[i],)),
    ensures match r {
        Ok(out) => out@.len() == v@.len() && forall |i: int| 0 <= i < v@.len() ==> f.ensures((v@[i],), Ok(#[trigger] out@[i])),
        Err(e) => exists |i: int| 0 <= i < v@.len() && f.ensures((#[trigger] v@[i],), Err(e)),
    }
{ unimplemented!() }
