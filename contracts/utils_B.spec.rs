// pass B only: `panic!` is a diverging call (R3), so a normal return of
// assert_no_intersection carries the postcondition.
#[verifier::external_body]
const fn verif_diverge() -> ! { panic!() }

// consumed prefix of every list is disjoint from every other list
spec fn consumed_ok<const N: usize>(msgs: &[&[&str]; N], states: &[State; N]) -> bool {
    forall |i: int, j: int, a: int, b: int|
        0 <= i < N && 0 <= j < N && i != j && 0 <= a < pos(msgs, states[i], i) && 0 <= b < msgs[j].len()
        ==> #[trigger] msgs[i][a]@ != #[trigger] msgs[j][b]@
}
