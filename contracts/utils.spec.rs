// Spec layer for sylvia/src/utils.rs (DESIGN.md §3).  Everything here is either a
// spec function, a proved lemma, or an explicitly trusted stub (`external_body`,
// listed in the trusted base by the scan in ./check).

// ---------- byte-lexicographic order assumed of konst::cmp_str ----------
pub open spec fn lex_lt(a: Seq<char>, b: Seq<char>) -> bool
    decreases a.len()
{
    if b.len() == 0 { false }
    else if a.len() == 0 { true }
    else if (a[0] as u32) < (b[0] as u32) { true }
    else if (a[0] as u32) > (b[0] as u32) { false }
    else { lex_lt(a.subrange(1, a.len() as int), b.subrange(1, b.len() as int)) }
}

proof fn lex_irrefl(a: Seq<char>)
    ensures !lex_lt(a, a)
    decreases a.len()
{
    if a.len() > 0 { lex_irrefl(a.subrange(1, a.len() as int)); }
}

proof fn lex_trans(a: Seq<char>, b: Seq<char>, c: Seq<char>)
    requires lex_lt(a, b), lex_lt(b, c)
    ensures lex_lt(a, c)
    decreases a.len()
{
    if a.len() > 0 && b.len() > 0 && c.len() > 0 {
        if a[0] == b[0] && b[0] == c[0] {
            lex_trans(a.subrange(1, a.len() as int), b.subrange(1, b.len() as int), c.subrange(1, c.len() as int));
        }
    }
}

proof fn lex_total(a: Seq<char>, b: Seq<char>)
    ensures lex_lt(a, b) || lex_lt(b, a) || a == b
    decreases a.len()
{
    if a.len() > 0 && b.len() > 0 {
        if a[0] == b[0] {
            let a1 = a.subrange(1, a.len() as int);
            let b1 = b.subrange(1, b.len() as int);
            lex_total(a1, b1);
            if a1 == b1 {
                assert(a =~= seq![a[0]] + a1);
                assert(b =~= seq![b[0]] + b1);
            }
        }
    } else if a.len() == 0 && b.len() == 0 {
        assert(a =~= b);
    }
}

// R2: trusted contracts of konst::cmp_str / konst::eq_str (cross-checked against
// konst's real code by the bounded Kani harness `konst_contracts`).
#[verifier::external_body]
const fn konst_cmp_str(a: &str, b: &str) -> (r: std::cmp::Ordering)
    ensures (r == std::cmp::Ordering::Less) == lex_lt(a@, b@),
            (r == std::cmp::Ordering::Greater) == lex_lt(b@, a@),
            (r == std::cmp::Ordering::Equal) == (a@ == b@),
{ unimplemented!() }

#[verifier::external_body]
const fn konst_eq_str(a: &str, b: &str) -> (r: bool)
    ensures r == (a@ == b@),
{ unimplemented!() }

// ---------- cursor abstraction ----------
spec fn wf_state<const N: usize>(msgs: &[&[&str]; N], s: State, k: int) -> bool {
    match s {
        State::Ongoing(w) => w < msgs[k].len(),
        State::Finished(w) => w + 1 == msgs[k].len(),
        State::Empty => msgs[k].len() == 0,
    }
}
spec fn wf<const N: usize>(msgs: &[&[&str]; N], states: &[State; N]) -> bool {
    forall |k: int| 0 <= k < N ==> wf_state(msgs, #[trigger] states[k], k)
}
spec fn pos<const N: usize>(msgs: &[&[&str]; N], s: State, k: int) -> int {
    match s {
        State::Ongoing(w) => w as int,
        State::Finished(w) => msgs[k].len() as int,
        State::Empty => 0,
    }
}
spec fn head<const N: usize>(msgs: &[&[&str]; N], states: &[State; N], k: int) -> Seq<char> {
    msgs[k][states[k]->Ongoing_0 as int]@
}

// ---------- the property's own vocabulary (taken from the statement of C05) ----------
pub open spec fn sorted_strict(l: &[&str]) -> bool {
    forall |a: int, b: int| 0 <= a < b < l.len() ==> lex_lt(#[trigger] l[a]@, #[trigger] l[b]@)
}
pub open spec fn all_sorted<const N: usize>(msgs: &[&[&str]; N]) -> bool {
    forall |k: int| 0 <= k < N ==> sorted_strict(#[trigger] msgs[k])
}
pub open spec fn disjoint<const N: usize>(msgs: &[&[&str]; N]) -> bool {
    forall |i: int, j: int, a: int, b: int|
        0 <= i < N && 0 <= j < N && i != j && 0 <= a < msgs[i].len() && 0 <= b < msgs[j].len()
        ==> #[trigger] msgs[i][a]@ != #[trigger] msgs[j][b]@
}

// ---------- termination measure ----------
spec fn remaining<const N: usize>(msgs: &[&[&str]; N], states: &[State; N], k: int) -> int
    decreases k
{
    if k <= 0 { 0 } else { remaining(msgs, states, k - 1) + (msgs[k - 1].len() - pos(msgs, states[k - 1], k - 1)) }
}

proof fn remaining_step<const N: usize>(msgs: &[&[&str]; N], s1: &[State; N], s2: &[State; N], idx: int, k: int)
    requires 0 <= idx < N, 0 <= k <= N, wf(msgs, s1), wf(msgs, s2),
       forall |m: int| 0 <= m < N && m != idx ==> s1[m] == s2[m],
       pos(msgs, s2[idx], idx) == pos(msgs, s1[idx], idx) + 1,
    ensures remaining(msgs, s2, k) == remaining(msgs, s1, k) - (if idx < k { 1int } else { 0int }),
       remaining(msgs, s1, k) >= 0, remaining(msgs, s2, k) >= 0,
    decreases k
{
    if k > 0 { remaining_step(msgs, s1, s2, idx, k - 1); }
}
