"""Replay of refutations against the real code (DESIGN.md §2.5 step 5)."""
import json, os, re
from .common import *

REPLAY_SRC = os.path.join(VERIF, "replay")
REPLAY_CRATE = os.path.join(BUILD, "replay-" + REPO_TAG)
REPLAY_TARGET = os.path.join(BUILD, "replay-target" + ("" if REPO_TAG == "main" else "-" + REPO_TAG))


def _run_native(bin_name, args, features=None, timeout=900):
    """build + run a binary of /verif/replay (path dependency on /repo/sylvia) natively"""
    import shutil
    shutil.rmtree(REPLAY_CRATE, ignore_errors=True)
    shutil.copytree(REPLAY_SRC, REPLAY_CRATE, ignore=shutil.ignore_patterns("target", "Cargo.lock"))
    tp = os.path.join(REPLAY_CRATE, "Cargo.toml")
    toml = open(tp).read().replace('path = "/repo/sylvia"', 'path = "%s/sylvia"' % REPO)
    open(tp, "w").write(toml)
    shutil.copyfile(os.path.join(REPO, "Cargo.lock"), os.path.join(REPLAY_CRATE, "Cargo.lock"))
    cmd = ["cargo", "run", "--offline", "--quiet", "--release", "--bin", bin_name]
    if features:
        cmd += ["--features", ",".join(features)]
    cmd += ["--"] + list(args)
    rc, so, se, wall = sh(cmd, cwd=REPLAY_CRATE, timeout=timeout, env=env_offline({"CARGO_TARGET_DIR": REPLAY_TARGET}))
    return rc, so, se, wall


_playbacks_done = 0


def kani_playback(feature, harness, kernel=False, full=None):
    """Kani concrete playback: obtain the counterexample as a unit test, run it natively against the real code."""
    import shutil
    from . import kani_engine as K
    if kernel:
        K.assemble_kernels()
        crate, target, fflags, zflags = K.KERN, os.path.join(BUILD, "kern-target-" + REPO_TAG), [], ["-Z", "unstable-options"]
    else:
        K.generate()
        crate, target, fflags, zflags = K.KX, K.KTARGET, ["--features", feature], ["-Z", "stubbing", "-Z", "unstable-options"]
    cmd = ["cargo", "kani"] + fflags + zflags + ["-Z", "concrete-playback", "--concrete-playback=print",
           "--harness-timeout", "900s", "--output-format", "terse", "--harness", full or harness] + (["--exact"] if full else [])
    rc, so, se, wall = sh(cmd, cwd=crate, timeout=1500, env=env_offline({"CARGO_TARGET_DIR": target}))
    m = re.search(r"```\n(.*?#\[test\].*?)```", so, re.S)
    if not m:
        return {"reproduced": False, "method": "kani --concrete-playback=print produced no test", "stdout": so[-1500:]}
    test_src = m.group(1)
    tname = re.search(r"fn (kani_concrete_playback_\w+)", test_src).group(1)
    vals = re.findall(r"^\s*// (.+)$", test_src, re.M)
    # copy the harness crate, append the test to the module that holds the harness, run natively
    dst = os.path.join(BUILD, "playback", "kx")
    shutil.rmtree(dst, ignore_errors=True)
    shutil.copytree(crate, dst, ignore=shutil.ignore_patterns("target"))
    placed = False
    for root, _, files in os.walk(os.path.join(dst, "src")):
        for f in files:
            p = os.path.join(root, f)
            t = open(p).read()
            if re.search(r"fn %s\(\)" % re.escape(harness), t):
                i = t.rstrip().rfind("}")
                t = t[:i] + "\n" + test_src + "\n}\n"
                open(p, "w").write(t)
                placed = True
    if not placed:
        return {"reproduced": False, "method": "harness source not found for playback"}
    cmd2 = ["cargo", "kani", "playback", "-Z", "concrete-playback"] + fflags + ["--", tname]
    rc2, so2, se2, wall2 = sh(cmd2, cwd=dst, timeout=1500, env=env_offline({"CARGO_TARGET_DIR": os.path.join(BUILD, "playback-target")}))
    out = so2 + se2
    open(os.path.join(BUILD, "playback", "last_output.txt"), "w").write(out)
    shutil.rmtree(dst, ignore_errors=True)
    failed = bool(re.search(r"test result: FAILED|panicked at", out))
    passed = bool(re.search(r"test result: ok\. 1 passed", out))
    out = "\n".join(l for l in out.splitlines() if re.search(r"panicked|assert|^test |test result|left:|right:", l))
    res = {"method": "Kani concrete playback: the counterexample as a unit test, run natively against the real crates (cargo kani playback)",
           "concrete_values_in_order_of_kani_any": vals[:64], "unit_test": test_src[:6000], "native_output": out[-2500:], "wall_s": round(wall + wall2, 1)}
    if failed:
        res["reproduced"] = True
    elif passed:
        res["reproduced"] = False
        res["spurious"] = True
    else:
        res["reproduced"] = False
        res["error"] = "native playback did not run"
    return res


def attempt(prop, ob):
    """-> dict(reproduced=bool, spurious=bool, input=..., output=...)"""
    global _playbacks_done
    try:
        if ob.engine in ("K", "G", "KT") and ob.extra.get("playback"):
            return ob.extra["playback"]
        if ob.engine == "KT" and ob.extra.get("harness"):
            r = kani_playback("", ob.extra["harness"], kernel=True, full=ob.extra.get("harness_full"))
            # decode the ASCII string of the counterexample for readability
            try:
                vals = r.get("concrete_values_in_order_of_kani_any", [])
                bs = [int(v) for v in vals if re.fullmatch(r"\d+", v)]
                ln = [v for v in vals if v.endswith("ul")]
                if bs and ln:
                    n = int(ln[0][:-2])
                    r["counterexample_string"] = bytes(bs[:n]).decode("ascii", "replace")
            except Exception:
                pass
            return r
        if ob.engine in ("K", "G") and ob.extra.get("harness"):
            if _playbacks_done >= 3:
                return {"reproduced": False, "method": "concrete playback limited to 3 refutations per run; see the other replay files of this run"}
            _playbacks_done += 1
            return kani_playback(ob.extra["feature"], ob.extra["harness"], full=ob.extra.get("harness_full"))
        if prop in ("C10", "C20") and ob.engine in ("B", "V", "K"):
            bin_name, feats = ("replay_c10", ["cw12"]) if prop == "C10" else ("replay_c20", [])
            rc, so, se, wall = _run_native(bin_name, [], features=feats)
            m = re.search(r"^COUNTEREXAMPLE (.*)$", so, re.M)
            if m:
                return {"reproduced": True, "method": "native enumeration against the real functions (bin %s)" % bin_name, "input": json.loads(m.group(1)), "wall_s": round(wall, 1)}
            return {"reproduced": False, "method": "native enumeration (bin %s) found no failing input within its bound" % bin_name, "stdout": so[-800:]}
        if prop in ("C05",) and ob.engine in ("V", "B"):
            rc, so, se, wall = _run_native("replay_c05", [])
            m = re.search(r"^COUNTEREXAMPLE (.*)$", so, re.M)
            if m:
                return {"reproduced": True, "method": "native enumeration of small name-list tuples against the real sylvia::utils::assert_no_intersection (catch_unwind) vs a direct O(n^2) disjointness test",
                        "input": json.loads(m.group(1)), "cmd": "./check C05 --replay <this file>  (runs /verif/replay bin replay_c05 against the repository)", "wall_s": round(wall, 1)}
            return {"reproduced": False, "method": "native enumeration found no failing tuple within its bound", "stdout": so[-1500:], "stderr": se[-1500:]}
        if prop in ("C11", "C02") and ob.engine in ("V", "B"):
            feats = []
            m = re.search(r"into_response\.([a-z0-9_+]+)\.", ob.name)
            if m:
                feats = [f for f in m.group(1).split("+") if f != "staking"]
            rc, so, se, wall = _run_native("replay_c11", [], features=feats)
            m = re.search(r"^COUNTEREXAMPLE (.*)$", so, re.M)
            if m:
                return {"reproduced": True, "method": "native differential replay: real IntoResponse::into_response on an enumerated family of responses, compared field-wise with the input",
                        "input": json.loads(m.group(1)), "features": feats, "cmd": "cd /verif/replay && cargo run --offline --release --bin replay_c11" + (" --features " + ",".join(feats) if feats else ""), "wall_s": round(wall, 1)}
            return {"reproduced": False, "method": "native differential replay found no failing response in its family", "stdout": so[-1500:], "stderr": se[-1500:]}
    except Exception as e:  # replay trouble never hides the refutation
        return {"reproduced": False, "error": "replay machinery failed: %r" % (e,)}
    return {"reproduced": False, "method": "no input-producing replay exists for this obligation kind; the verifier's diagnostic is attached"}


def rerun(prop, body):
    class _O: pass
    o = _O()
    o.engine, o.name, o.extra = body.get("engine"), body.get("failed_obligation"), body.get("extra", {})
    if o.extra.get("playback"):
        o.extra = dict(o.extra); o.extra.pop("playback")
    return attempt(prop, o)
