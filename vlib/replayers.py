"""Replay of refutations against the real code (DESIGN.md §2.5 step 5)."""
import json, os, re
from .common import *

REPLAY_CRATE = os.path.join(VERIF, "replay")
REPLAY_TARGET = os.path.join(BUILD, "replay-target")


def _run_native(bin_name, args, features=None, timeout=900):
    """build + run a binary of /verif/replay (path dependency on /repo/sylvia) natively"""
    import shutil
    shutil.copyfile(os.path.join(REPO, "Cargo.lock"), os.path.join(REPLAY_CRATE, "Cargo.lock"))
    cmd = ["cargo", "run", "--offline", "--quiet", "--release", "--bin", bin_name]
    if features:
        cmd += ["--features", ",".join(features)]
    cmd += ["--"] + list(args)
    rc, so, se, wall = sh(cmd, cwd=REPLAY_CRATE, timeout=timeout, env=env_offline({"CARGO_TARGET_DIR": REPLAY_TARGET}))
    return rc, so, se, wall


def attempt(prop, ob):
    """-> dict(reproduced=bool, spurious=bool, input=..., output=...)"""
    try:
        if ob.engine in ("K", "G", "KT") and ob.extra.get("playback"):
            return ob.extra["playback"]
        if prop == "C05" and ob.engine == "V":
            rc, so, se, wall = _run_native("replay_c05", [])
            m = re.search(r"^COUNTEREXAMPLE (.*)$", so, re.M)
            if m:
                return {"reproduced": True, "method": "native enumeration of small name-list tuples against the real sylvia::utils::assert_no_intersection (catch_unwind) vs a direct O(n^2) disjointness test",
                        "input": json.loads(m.group(1)), "cmd": "cd /verif/replay && cargo run --offline --release --bin replay_c05", "wall_s": round(wall, 1)}
            return {"reproduced": False, "method": "native enumeration found no failing tuple within its bound", "stdout": so[-1500:], "stderr": se[-1500:]}
        if prop == "C11" and ob.engine == "V":
            feats = []
            m = re.search(r"into_response\.([a-z0-9_+]+)\.", ob.name)
            if m:
                feats = [f for f in m.group(1).split("+") if f != "staking"]
            rc, so, se, wall = _run_native("replay_c11", [], features=feats)
            m = re.search(r"^COUNTEREXAMPLE (.*)$", so, re.M)
            if m:
                return {"reproduced": True, "method": "native differential replay: real IntoResponse::into_response on an enumerated family of responses, compared field-wise with the input",
                        "input": json.loads(m.group(1)), "features": feats, "cmd": "cd /verif/replay && cargo run --offline --release --bin replay_c11" + (" --features " + ",".join(feats) if feats else ""), "wall_s": round(wall, 1)}
            return {"reproduced": False, "method": "native differential replay found no failing response in its family", "stdout": so[-1500:], "stderr": se[-1500:]}
    except Exception as e:  # replay trouble never hides the refutation
        return {"reproduced": False, "error": "replay machinery failed: %r" % (e,)}
    return {"reproduced": False, "method": "no input-producing replay exists for this obligation kind; the verifier's diagnostic is attached"}


def rerun(prop, body):
    class _O: pass
    o = _O()
    o.engine, o.name, o.extra = body.get("engine"), body.get("failed_obligation"), body.get("extra", {})
    if o.extra.get("playback"):
        o.extra = dict(o.extra); o.extra.pop("playback")
    return attempt(prop, o)
