"""Per-property obligation sets (DESIGN.md §1, §4) and the verdict logic (§2.5)."""
import json, os, re, time
from concurrent.futures import ThreadPoolExecutor
from .common import *
from . import verus_engine as V
from . import kani_engine as K

# ---------------------------------------------------------------- baselines for engine V
# trusted = names found by the mechanical scan of the assembled file (external_body items, assume/admit)
UTILS_TRUSTED = ["konst_cmp_str", "konst_eq_str"]
IR_TRUSTED = ["AnyMsg", "Attribute", "BankMsg", "Binary", "DistributionMsg", "Event", "GovMsg", "IbcMsg", "StakingMsg", "WasmMsg",
              "StdError", "generic_err", "verif_opaque_string", "new", "add_submessages", "add_events", "add_attributes", "verif_try_map_collect"]
UTILS_LOOPS = {"init_states": 1, "get_next_alphabetical_index": 1, "verify_no_collissions": 1, "should_end": 1, "assert_no_intersection": 1}

V_UNITS = {
    "utils_A": dict(file="utils_A.contracts", features=[], baseline=dict(trusted=UTILS_TRUSTED, loops=UTILS_LOOPS)),
    "utils_B": dict(file="utils_B.contracts", features=[], baseline=dict(trusted=UTILS_TRUSTED + ["verif_diverge"], loops=UTILS_LOOPS)),
    "into_response.staking": dict(file="into_response.contracts", features=["staking"], baseline=dict(trusted=IR_TRUSTED, loops={"into_msg": 0, "into_response": 0})),
    "into_response.staking+stargate+cosmwasm_2_0": dict(file="into_response.contracts", features=["staking", "stargate", "cosmwasm_2_0"],
                                                        baseline=dict(trusted=IR_TRUSTED, loops={"into_msg": 0, "into_response": 0})),
}

BUILDER_TRUSTED = ["Addr", "Binary", "Coin", "verif_to_string", "verif_into", "verif_unwrap_or_default"]
V_UNITS["exec_builder"] = dict(file="exec_builder.contracts", features=["cosmwasm_1_2"],
                               baseline=dict(trusted=BUILDER_TRUSTED + ["default"], loops={"ExecutorBuilder:1::new": 0, "ExecutorBuilder:2::with_funds": 0, "ExecutorBuilder:2::funds": 0, "ExecutorBuilder:2::contract": 0, "ExecutorBuilder:3::new": 0, "ExecutorBuilder:3::build": 0}))
V_UNITS["inst_builder"] = dict(file="inst_builder.contracts", features=["cosmwasm_1_2"],
                               baseline=dict(trusted=BUILDER_TRUSTED, loops={"InstantiateBuilder:1::new": 0, "InstantiateBuilder:1::with_label": 0, "InstantiateBuilder:1::with_admin": 0, "InstantiateBuilder:1::with_funds": 0, "InstantiateBuilder:1::build": 0, "InstantiateBuilder:1::build2": 0}))

V_ASSUMPTIONS = {
    "utils": [
        "R1: konst::for_range!{i in a..b => body} is unrolled to `let mut i = a; while i < b { body; i += 1; }` (the macro's own expansion is not verified; cross-checked by the bounded Kani run of the unmodified function)",
        "R2: konst::cmp_str / konst::eq_str are replaced by external_body stubs with assumed contracts: strict lexicographic total order on the string view, and equality (cross-checked against konst's real code by a bounded Kani harness)",
        "R3 (pass B only): panic!(<literal>) is a diverging call; the panic message is dropped",
        "&str is viewed as Seq<char>; konst compares bytes; UTF-8 byte order = code-point order (only total-orderness is used)",
        "usize is 64-bit; machine arithmetic is checked for overflow by Verus, not treated as mathematical",
        "Verus 0.2026.09.13 and Z3 are trusted",
    ],
    "builders": [
        "V (builders): ExecutorBuilder and InstantiateBuilder impl blocks are extracted verbatim; R7: WasmMsg is a skeleton of cosmwasm-std's enum, Binary/Coin/Addr opaque; R9: `.to_string()` on Addr, `.into()` on the label and `.unwrap_or_default()` on Option<String> are replaced by external_body functions with assumed contracts (result = uninterpreted function of the argument; content-or-empty); R10: `fn f(mut self)` is rewritten to `let mut this = self` with `self` renamed in the body; Binary::default() is an opaque constructor; private fields are read through closed spec accessors written in the prelude",
    ],
    "into_response": [
        "R4: `impl<C> Trait<C> for Ty { fn m(self) }` is rewritten to `impl Ty { fn m<C>(self) }` (each trait has exactly one impl; trait dispatch is dropped)",
        "R5: `E.into_iter().map(F).collect::<StdResult<_>>()` is replaced by verif_try_map_collect(E, F) carrying its assumed contract (Ok: same length, element-wise F; Err: some element's F failed)",
        "R6: format!(..) -> opaque String, StdError::generic_err -> opaque constructor (error text not modelled)",
        "R7: CosmosMsg, SubMsg, ReplyOn, Response, Empty are skeletons copied mechanically from the cosmwasm-std source cargo resolves for /repo (attributes stripped, cfg resolved for the feature set of the run); payload types (WasmMsg, BankMsg, StakingMsg, DistributionMsg, IbcMsg, GovMsg, AnyMsg, Binary, Event, Attribute) are opaque — sound because the code only moves them",
        "R8: Response::{new, add_submessages, add_events, add_attributes} are external_body with assumed contracts (empty; append to that field, frame on the others) — cosmwasm-std's bodies are trusted",
        "Verus 0.2026.09.13 and Z3 are trusted",
    ],
}


def run_v_units(prop, names):
    obs, infos = [], []
    with ThreadPoolExecutor(max_workers=4) as ex:
        futs = {n: ex.submit(V.verify_unit, prop, V_UNITS[n]["file"], n, V_UNITS[n]["features"], V_UNITS[n]["baseline"]) for n in names}
        for n in names:
            o, i = futs[n].result()
            obs.extend(o); infos.append(i)
    return obs, infos


# ---------------------------------------------------------------- properties
def c05_v(prop, tier, seed):
    try:
        obs, infos = run_v_units(prop, ["utils_A", "utils_B"])
    except Undecided as u:
        obs, infos = bounded_standin(prop, str(u), [("utils.native", "replay_c05", [])])
    return dict(obs=obs, infos=infos, level="proof", assumptions=list(V_ASSUMPTIONS["utils"]),
                explanation="C05 clause 1 (overlap scan): Verus proves, for every N, every list length and every string, on the bodies of sylvia/src/utils.rs extracted verbatim (rewrites R1-R3): pass A disjoint(msgs) => neither panic! nor unreachable!() reachable, all indexing in bounds, no overflow, termination; pass B all_sorted(msgs) and normal return => disjoint(msgs).")


def bounded_standin(prop, reason, runs):
    """V could not process the current source (unsupported construct / lost anchor).  A bounded native check of the
    real function stands in: a concrete failing input is a violation; finding none leaves the property undecided."""
    from . import replayers
    for label, bin_name, feats in runs:
        rc, so, se, wall = replayers._run_native(bin_name, [], features=feats)
        m = re.search(r"^COUNTEREXAMPLE (.*)$", so, re.M)
        if m:
            ob = Ob("%s.B.%s" % (prop, label), "B", "refuted",
                    "bounded stand-in (NOT a proof): the deductive check was undecided (%s); native enumeration against the real function found a failing input" % reason[:300],
                    seconds=wall, backend="native enumeration (bounded)", key=m.group(1)[:160],
                    extra={"playback": {"reproduced": True, "method": "native enumeration against the real code (bin %s)" % bin_name, "input": json.loads(m.group(1)), "features": feats or []}})
            return [ob], [{"cmd": "replay/%s (bounded stand-in after undecided V: %s)" % (bin_name, reason[:200]), "wall_s": round(wall, 1), "trusted": []}]
    raise Undecided(reason + " | bounded native stand-in found no failing input within its bound")


def c11(prop, tier, seed):
    try:
        obs, infos = run_v_units(prop, ["into_response.staking", "into_response.staking+stargate+cosmwasm_2_0"])
    except Undecided as u:
        obs, infos = bounded_standin(prop, str(u), [("into_response.native", "replay_c11", []), ("into_response.native.stargate", "replay_c11", ["stargate", "cosmwasm_2_0"])])
    o2, i2 = K.run_property(prop, tier, ["g_custom"])
    obs.extend(o2); infos.extend(i2)
    return dict(obs=obs, infos=infos, level="proof", assumptions=list(V_ASSUMPTIONS["into_response"]) + ["generator half (bridged dispatch arm) is bounded over programs: one fixture contract (fx_custom) with an Empty-typed interface attached `: custom(msg, query)` next to a native custom-typed interface; " + G_ASSUMPTIONS[1], G_ASSUMPTIONS[2], G_ASSUMPTIONS[3]],
                fixtures=["fx_custom"],
                explanation="C11 generator half (bounded, fixture fx_custom): Kani discharges that the bridged exec/sudo/query handlers see the caller's storage, api, env and sender, that exactly the bridged handler runs, and that its Ok response reaches the caller through into_response with the data intact. C11 (conversion functions): Verus proves on the bodies of IntoMsg::into_msg and IntoResponse::into_response extracted from sylvia/src/into_response.rs, for all responses (any number/kind of sub-messages, attributes, events, data) and for two feature sets: Ok => every sub-message converted with id/payload/gas_limit/reply_on/content intact and in order, events/attributes/data equal; Err => some message is Custom; no Custom => Ok.")


G_ASSUMPTIONS = [
    "bounded (programs): the quantifier over programs is replaced by the fixture corpus generated by kani/gen_fixtures.py (listed under coverage.fixtures); the quantifier over argument values, block height, sender length is universal (symbolic, full domain)",
    "Kani 0.68 / CBMC 6.11 / CaDiCaL are trusted; Kani results are partial correctness (termination not proved); unwinding assertions stay on",
    "std::backtrace::Backtrace::capture and alloc::fmt::format are stubbed in harnesses that can construct a StdError (formatted error text / backtrace not modelled; the unformatted text of a StdError::GenericErr is observed, by length and first byte, where a C07 clause names it)",
    "Storage/Api/Querier are small recording dummies; funds are empty; heap payloads are 0-2 bytes",
    "wire shape is stated on the serde data model (recording Serializer / scripted self-describing Deserializer); serde_json's struct->text and text->events steps are a dependency and assumed",
    "expected names, field names, argument order and handler numbers come from the table in kani/gen_fixtures.py (the method signatures), not from the macro output",
]


KT_ASSUMPTIONS = ["KT: kernels are lifted verbatim from sylvia-derive (match arms / function bodies are the repository's bytes); dropped by lifting: the scrutinee expression becomes a &str parameter, Error::new/.span() become a shim, parse_quote!{X} becomes stringify!(X); strings longer than 24 bytes cannot equal any literal in the tables (stated, not machine-checked)"]


# what is under contract per property on the G/K/KT side: the GENERATED function the postcondition is stated on, and
# the generator code (anchors of properties.jsonl) that emits it
UNDER_CONTRACT = {
    "C01": ["generated sv::{Exec,Query,Sudo}Msg / InstantiateMsg / MigrateMsg: derived Serialize / Deserialize impls and constructors (emitted by MsgVariant::emit, emit_variants_constructors, MsgField::emit, MsgType::emit_derive_call; contract/communication/enum_msg.rs, struct_msg.rs; interface/communication/enum_msg.rs)"],
    "C02": ["generated <Msg>::dispatch of every message type (MsgVariant::emit_dispatch_leg, MsgType::emit_dispatch_leg, struct_msg.rs emit_dispatch)", "generated Contract<K>Msg::dispatch (wrapper_msg.rs, Interfaces::emit_dispatch_arms)", "sylvia::ctx: From<tuple> for ExecCtx, InstantiateCtx, QueryCtx, SudoCtx, MigrateCtx, ReplyCtx (sylvia/src/ctx.rs:80-133)"],
    "C03": ["generated sv::<ep>_messages() (MsgVariants::as_names_snake_cased; enum_msg.rs)", "generated Contract<K>Msg: Serialize (untagged), From<part>, dispatch (wrapper_msg.rs; types/interfaces.rs)"],
    "C04": ["generated entry_points::<k> signatures and ContractApi associated types (entry_points.rs; contract/communication/api.rs)", "generated message enums: exact variant sets (MsgVariants::new kind filter)", "MsgType::new, MsgAttrForwarding / OverrideEntryPoint kind tables, SylviaAttribute::match_attribute (lifted kernels)"],
    "C05": ["generated sv::<ep>_messages() of every part: sorted, one entry per method, equal to the serialised variant names"],
    "C06": ["generated entry_points::{instantiate, execute, query, sudo, migrate, reply} (EntryPoints::emit, emit_default_entry_point; entry_points.rs:106-231)", "OverrideEntryPoint::parse kind table, MsgType::new, MsgType::emit_ep_name / emit_msg_name / emit_msg_wrapper_name / as_accessor_name / as_accessor_wrapper_name (lifted kernels)"],
    "C07": ["generated sv::dispatch_reply (Reply::emit_dispatch, ReplyData::emit_match_arms / emit_success_match_arm / emit_error_match_arm; reply.rs)", "ReplyOn::new, ReplyOn::excludes (lifted kernels)", "sylvia::ctx From<(DepsMut, Env, u64, Vec<Event>, Vec<MsgResponse>)> for ReplyCtx"],
    "C08": ["generated sv::SubMsgMethods impls for SubMsg / WasmMsg / CosmosMsg (ReplyData::emit_submsg_setter, emit_submsg_converter, emit_cw_reply_on; reply.rs)", "generated <NAME>_REPLY_ID constants (Reply::emit_reply_ids)"],
    "C09": ["generated data extraction in the success arm of sv::dispatch_reply (DataField::emit_data_deserialization; reply.rs:584-671)"],
    "C10": ["generated sv::Executor / <iface>::sv::Executor trait methods (contract/communication/executor.rs, interface/communication/executor.rs)", "sylvia::types::Remote::{new, borrowed, as_ref, executor, update_admin, clear_admin} (sylvia/src/types.rs:405-460)"],
    "C11": ["generated bridged dispatch arm of Contract{Exec,Sudo,Query}Msg::dispatch (Interfaces::emit_dispatch_arms, MsgType::emit_ctx_dispatch_values; types/interfaces.rs:114-137)"],
    "C14": ["the C02/C03/C05/C07/C08 contracts re-stated on permuted twins; `<fixture>.T.accepted` for both declaration orders"],
    "C15": ["generated generic message types and their dispatch (MsgVariants::new used/unused split, filter_wheres, CheckGenerics; api.rs aliases)"],
    "C17": ["generated message types / variants / fields of fx_attr (MsgAttrForwarding filter in enum_msg.rs / struct_msg.rs, MsgVariant::emit attrs_to_forward, MsgField::emit)", "MsgAttrForwarding kind table (lifted kernel)"],
    "C20": ["sylvia::types::Remote: derived Serialize / Deserialize, manual JsonSchema impl (schema_name, schema_id), new / borrowed / as_ref (sylvia/src/types.rs:370-460)"],
}


def g_prop(explanation, features=None, uncovered=None, extra_assumptions=(), kernels=False):
    def f(prop, tier, seed):
        obs, infos = K.run_property(prop, tier, features)
        if kernels:
            try:
                o2, i2 = K.run_kernels(prop)
                obs.extend(o2); infos.append(i2)
            except Undecided as u:
                # a kernel that changed shape is undecided on its own; it must not hide refutations elsewhere
                obs.append(Ob("%s.KT.kernels" % prop, "KT", "undecided", str(u)[:600]))
        if not obs:
            raise Undecided("no obligation registered for %s in tier %s" % (prop, tier))
        fixtures = sorted(set(o.extra.get("fixture", "") for o in obs if o.extra.get("fixture")))
        return dict(obs=obs, infos=infos, level="other", assumptions=G_ASSUMPTIONS + (KT_ASSUMPTIONS if kernels else []) + list(extra_assumptions), explanation=explanation, fixtures=fixtures, uncovered=uncovered or [], functions_under_contract=UNDER_CONTRACT.get(prop, []))
    return f


def c05(prop, tier, seed):
    r = c05_v(prop, tier, seed)
    obs, infos = K.run_property(prop, tier, None)
    r["obs"].extend(obs); r["infos"].extend(infos)
    r["assumptions"] += ["clause 2 (published list vs wire names) is bounded over programs: " + G_ASSUMPTIONS[0], G_ASSUMPTIONS[4], G_ASSUMPTIONS[5]]
    r["uncovered"] = ["the `const _` call site inside the wrapper's dispatch is decided only on two must-not-compile fixtures (fx_overlap_a: contract vs interface with the collision found only if the lists are sorted; fx_overlap_b: two interfaces sharing a sudo name): bounded over programs"]
    r["fixtures"] = sorted(set(o.extra.get("fixture", "") for o in obs if o.extra.get("fixture")))
    return r


def c14(prop, tier, seed):
    f = g_prop("C14 on permuted twins: every fixture with reorderable parts (methods reversed; interface attributes reversed; success/error reply methods in both orders) is compiled and must satisfy the SAME contracts as the original (dispatch, routing, wire shape, lists, reply routing, sub-message builders); reply ids are read from the generated constants. Both declaration orders of a success-with-data + error pair under one handler name must be accepted.",
               uncovered=["permutations other than reversal", "override attribute order"])
    r = f(prop, "thorough" if tier == "thorough" else "quick", seed)
    rej = [o for o in r["obs"] if o.status == "refuted" and o.name.endswith(".T.accepted") and "fx_reply_ord_" in o.name]
    if len(set(o.name for o in rej)) >= 2:
        raise Undecided("both declaration orders of the order-twin fixture are rejected: not an order dependence (tree does not build the fixture at all)")
    return r


def c02(prop, tier, seed):
    # "the caller gets the handler's response untouched" in a custom-typed contract goes through IntoMsg / IntoResponse:
    # the V units of C11 are obligations of C02 as well
    r = REGISTRY["C02_G"](prop, tier, seed)
    try:
        obs, infos = run_v_units(prop, ["into_response.staking", "into_response.staking+stargate+cosmwasm_2_0"])
    except Undecided as u:
        try:
            obs, infos = bounded_standin(prop, str(u), [("into_response.native", "replay_c11", []), ("into_response.native.stargate", "replay_c11", ["stargate", "cosmwasm_2_0"])])
        except Undecided as u2:
            obs, infos = [Ob("%s.V.into_response" % prop, "V", "undecided", str(u2)[:600])], []
    r["obs"] = obs + r["obs"]; r["infos"] = infos + r["infos"]
    r["assumptions"] = r["assumptions"] + V_ASSUMPTIONS["into_response"]
    return r


def c20(prop, tier, seed):
    r = REGISTRY["C20_K"](prop, tier, seed)
    und = [o for o in r["obs"] if o.status == "undecided"]
    if und:
        # e.g. a changed schema impl that formats type names: CBMC cannot run it.  Bounded native stand-in.
        try:
            obs, infos = bounded_standin(prop, "; ".join("%s: %s" % (o.name, o.detail[:120]) for o in und), [("remote.native", "replay_c20", [])])
            r["obs"].extend(obs); r["infos"].extend(infos)
        except Undecided:
            pass
    return r


def c10(prop, tier, seed):
    r = REGISTRY["C10_K"](prop, tier, seed)
    try:
        obs, infos = run_v_units(prop, ["exec_builder", "inst_builder"])
    except Undecided as u:
        # the K harnesses on the same functions stand (bounded sizes); the unbounded V units are undecided
        obs, infos = [Ob("%s.V.builders" % prop, "V", "undecided", str(u)[:600])], []
    r["obs"] = obs + r["obs"]; r["infos"] = infos + r["infos"]
    und = [o for o in r["obs"] if o.status == "undecided"]
    if und and not any(o.status == "refuted" for o in r["obs"]):
        # e.g. a builder rewritten with constructs neither tool finishes on: bounded native stand-in on the real functions
        try:
            o2, i2 = bounded_standin(prop, "; ".join("%s: %s" % (o.name, o.detail[:100]) for o in und), [("builders.native", "replay_c10", ["cw12"])])
            r["obs"].extend(o2); r["infos"].extend(i2)
        except Undecided:
            pass
    r["assumptions"] = V_ASSUMPTIONS["builders"] + r["assumptions"]
    r["explanation"] = "C10 (V, unbounded): Verus proves on the extracted impl blocks of ExecutorBuilder (new / with_funds / funds / contract / ready new / build) and InstantiateBuilder (new / with_label / with_admin / with_funds / build / build2) that every output field equals the corresponding input for ALL addresses, funds vectors, labels, admins, bodies and salts, the others unchanged, label empty when unset, build2 = build plus the salt. " + r["explanation"]
    return r


REGISTRY = {
    "C01": g_prop("C01 on the fixture corpus: for every generated message variant, the recording Serializer sees variant = method name, fields = argument names in order, values = arguments (all values symbolic); constructors build the literal; {own name: own fields} decodes back to an equal message; for every ASCII key up to 12 bytes a message type decodes to variant i only if key = name_i (wildcard-free match = exact variant set).",
                  uncovered=["struct->JSON text (serde_json)", "argument types beyond integer scalars"]),
    "C02": c02,
    "C02_G": g_prop("C02 on the fixture corpus: for every handler of every kind, dispatching its variant (directly and through the contract-level wrapper) runs exactly that handler once (call counters), with every field value at the parameter of the same name (incl. an 11-parameter handler and two same-typed parameters), the caller's storage/api reached, env.block.height and sender passed through, the handler's Err converted by Into, its Ok response untouched, and for a query the JSON of the returned value.",
                  uncovered=["funds other than empty", "querier pass-through"]),
    "C03": g_prop("C03 on the fixture corpus: (i) published name lists equal the wire names, (ii) the contract-level wrapper serialises exactly as the wrapped part (recording Serializer), (iii) wrapper dispatch routes each part's message to that part's handler; exact set of wrapper parts (wildcard-free match).",
                  uncovered=["the wrapper's hand-written Deserialize (accept iff exactly one part accepts; error text; no panic): CBMC does not finish on serde_cw_value's BTreeMap (DESIGN.md §2.4)"]),
    "C04": g_prop("C04 on the fixture corpus, as a chain: entry point of kind K takes the K wrapper type (fn-pointer coercion), which is ContractApi's K type; its variants wrap only the parts' K messages; each K message has exactly the K-annotated methods as variants; dispatching any of them bumps only a K handler counter; a K1-only name is rejected by the K2 message type.",
                  uncovered=["the multitest Contract impl (contract/mt.rs) sits behind cw_multi_test"], kernels=True),
    "C05": c05, "C11": c11,
    "C06": g_prop("C06: (KT) the override-kind table and the sv::msg kind table, lifted verbatim from sylvia-derive, are proved equal on every ASCII string up to 24 bytes, and the entry-point / message / accessor names are the documented ones and injective on kinds; (T) on the fixture corpus every non-overridden entry point exists with the documented signature taking the kind's wrapper type; (G) each emitted entry point builds the contract with new(), dispatches the message with the given deps/env/info and returns the dispatch outcome.",
                  uncovered=["absence of an overridden entry point is not expressible as an obligation on compiled code", "override subsets other than those in the fixture corpus"], kernels=True),
    "C07": g_prop("C07 on the reply fixtures (success-only, error-only, both via two methods in both declaration orders, always, one method bound to two names, typed-payload names): for each declared handler name (concrete id) and each outcome, for all gas_used / events (0-2) / data / raw payload bytes / error text (0-2 bytes): the method declared for that outcome (or always) runs with gas_used in the context, events and msg_responses for success, the error text or the full result as declared, the raw payload byte for byte; an outcome with no method is answered as if no reply had been requested (events and data passed through / that error with the sub-message's own error text: length and first byte); every id beyond the table is an error and no handler runs. KT: ReplyOn::new and ReplyOn::excludes.",
                  uncovered=["typed (JSON) payloads at dispatch: from_json is out of CBMC's reach", "msg_responses other than empty"], kernels=True),
    "C08": g_prop("C08 on the reply fixtures: for each handler name and each receiver (SubMsg, WasmMsg, CosmosMsg) the generated builder stamps <NAME>_REPLY_ID, requests a reply for exactly the outcomes that have a method (both or always => Always), keeps the wrapped message and, for an existing SubMsg, its gas limit (all Option<u64>), and carries a raw payload byte for byte; reply ids are pairwise distinct (const assertion).",
                  uncovered=["typed payload JSON round trip (needs a parser): only the builder half is decided, for integer payloads (thorough) and for a lone typed Binary (quoted string vs raw)"],
                  extra_assumptions=["cosmwasm_std::Binary::to_base64 is stubbed with a fixed text in the one harness about a typed Binary payload (the base64 encoder does not finish under CBMC); that harness decides only JSON-encoded vs raw"]),
    "C09": g_prop("C09 on fx_data (one success handler per data mode + one without data parameter): data absent x 7 modes (optional => None, mandatory => error and handler not invoked, no parameter => handler runs); raw modes with 2 symbolic bytes passed through; decoded modes with a non-envelope byte => error, handler not invoked.",
                  uncovered=["well-formed envelopes and JSON-level corruption reach cosmwasm_std::from_json (CBMC timeout)"]),
    "C14": c14,
    "C15": g_prop("C15 on fx_generic (contract Gen<A,B,R,U>: A used directly in exec, B only inside Vec<Option<B>> in sudo with a bound that also mentions the unused U, R only as a query response, U unused; interface with associated types P, Q): type-level obligations show each message type is nameable with exactly the used parameters and buildable/encodable with a type that satisfies only the kept bounds; Kani shows dispatch and wire shape on two instantiations equal the non-generic case.",
                  features=["g_generic"], uncovered=["generic programs outside the fixture", "two where-predicates on the same parameter do not compile on the pinned tree (DESIGN.md §5 item 7) and are not used"]),
    "C17": g_prop("C17 on fx_attr: sv::msg_attr(exec|instantiate, derive(PartialOrd)) yields PartialOrd on exactly ExecMsg and InstantiateMsg and on no other generated type (const assertions decided by rustc); sv::attr(serde(rename)) changes the wire key of that variant only (recording Serializer; the old name is rejected); an argument carrying #[serde(default)] may be absent on the wire and every other argument may not (scripted Deserializer). KT: the msg_attr kind table equals the sv::msg kind table.",
                  features=["g_attr"], uncovered=["attribute placements outside the fixture"], kernels=True),
    "C10": c10,
    "C10_K": g_prop("C10: Kani proves on the REAL functions of sylvia/src/types.rs and sylvia/src/builder/instantiate.rs (symbolic scalars, 1-2 byte payloads) that ExecutorBuilder::{new, with_funds, build}, InstantiateBuilder::{new, with_label, with_admin, with_funds, build, build2} and Remote::{new, borrowed, as_ref, executor, update_admin, clear_admin} carry every input to the corresponding output field and leave the others unchanged (label empty when unset); on the fixture corpus the generated Executor methods return a ready builder whose body is the canonical serialisation of the same ExecMsg variant.",
                  uncovered=["querier helpers (smart query round trip needs a JSON parser)", "funds beyond one coin; addresses beyond 2 bytes"]),
    "C20": c20,
    "C20_K": g_prop("C20: Kani proves on the REAL Remote<T> (sylvia/src/types.rs:370-460) for T in {contract, dyn Interface<Error=E>, ()} and both constructors: it serialises (serde data model) as a struct named Remote with exactly one non-skipped member `addr` whose str has the pointer and length of the address (so every byte is the address's, for all addresses up to 6 bytes, without a content loop); a scripted {addr: s} decodes to a handle with as_ref() == s; schema_name() is `Remote` for every T; the three trait impls exist for an unsized T with no impls.",
                  uncovered=["serde_json: one-field struct -> one-member JSON object and str -> JSON string (dependency, assumed)", "addresses longer than 6 bytes"]),
}


# ---------------------------------------------------------------- verdict
def replay(prop, path):
    """re-run the replay recorded in a replay file"""
    try:
        body = json.load(open(path))
    except Exception as e:
        print("cannot read replay file:", e); return 2
    print(json.dumps(body, indent=1)[:4000])
    from . import replayers
    r = replayers.rerun(prop, body)
    print(json.dumps(r, indent=1)[:4000])
    return 1 if r.get("reproduced") else 0


def finish(prop, tier, seed, result, wall):
    from . import replayers
    obs = result["obs"]
    known = load_known()
    refuted = [o for o in obs if o.status == "refuted"]
    undecided = [o for o in obs if o.status == "undecided"]
    discharged = [o for o in obs if o.status == "discharged"]
    violations, known_hits = [], []
    for o in refuted:
        k = match_known(prop, o, known)
        if k:
            known_hits.append((o, k))
        else:
            violations.append(o)
    for o, k in known_hits:
        print("KNOWN-FINDING: property=%s %s [%s %s]" % (prop, k["text"], o.name, o.key))
    lines = []
    for o in violations:
        rp = replayers.attempt(prop, o)
        body = {"property": prop, "failed_obligation": o.name, "engine": o.engine, "backend": o.backend, "where": o.where,
                "verifier_output": o.detail, "counterexample_key": o.key, "extra": o.extra, "replay": rp}
        path = write_replay(prop, o, body)
        if rp.get("spurious"):
            # a trace that does not reproduce natively is not believed
            o.status = "undecided"; o.detail += " [counterexample did not replay natively: treated as undecided]"
            undecided.append(o)
            continue
        suffix = "" if rp.get("reproduced") else " no-failing-input-found"
        lines.append("VIOLATION property=%s replay=%s%s" % (prop, path, suffix))
    violations = [o for o in violations if o.status == "refuted"]
    # evidence
    level = result.get("level", "other")
    cov = {
        "obligations": len(obs), "discharged": len(discharged), "refuted": len(refuted), "undecided": len(undecided),
        "known_findings_matched": len(known_hits),
        "checker_cmd": "; ".join(sorted(set(i.get("verus_cmd") or i.get("kani_cmd") or i.get("cmd", "") for i in result["infos"] if i))),
        "trusted_base": sorted(set(t for i in result["infos"] for t in i.get("trusted", []))),
        "explanation": result.get("explanation", ""),
        "engines": result["infos"],
        "solver_seconds": round(sum(o.seconds for o in obs), 3),
        "samples": [o.to_json() for o in (refuted + undecided + discharged)[:60]],
        "evaluations": len(obs), "distinct_nontrivial": len(set(o.name for o in obs)),
        "rule": "one record per proof unit / harness / type-level obligation; distinct = distinct obligation names",
        "exhaustive": False,
    }
    fuc = list(result.get("functions_under_contract") or UNDER_CONTRACT.get(prop, []))
    for i in result["infos"]:
        for f in (i or {}).get("functions_under_contract", []):
            if f not in fuc:
                fuc.append(f)
    cov["functions_under_contract"] = fuc
    eng = {}
    for o in obs:
        e = eng.setdefault(o.engine, {"obligations": 0, "discharged": 0, "refuted": 0, "undecided": 0, "solver_seconds": 0.0, "backend": o.backend})
        e["obligations"] += 1; e[o.status] += 1; e["solver_seconds"] = round(e["solver_seconds"] + o.seconds, 3)
    cov["per_engine"] = eng
    for k in ("fixtures", "bounds", "uncovered"):
        if result.get(k) is not None:
            cov[k] = result[k]
    write_evidence(prop, tier, seed, level, cov, result.get("assumptions", []), wall, len(violations))
    nd = len(discharged)
    print("property=%s tier=%s obligations=%d discharged=%d refuted=%d (known %d) undecided=%d wall=%.1fs" % (prop, tier, len(obs), nd, len(refuted), len(known_hits), len(undecided), wall))
    if violations:
        for l in lines:
            print(l)
        return 1
    if undecided:
        for o in undecided[:10]:
            print("UNDECIDED obligation=%s reason=%s" % (o.name, o.detail.replace("\n", " ")[:500]))
        return 2
    return 0
