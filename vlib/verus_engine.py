"""Engine V: Verus on mechanically extracted real function bodies (DESIGN.md §2.1)."""
import json, os, re
from .common import *

KIND_BY_MSG = [
    ("postcondition not satisfied", "ensures"),
    ("precondition not satisfied", "requires-at-call"),
    ("invariant not satisfied before loop", "invariant-entry"),
    ("invariant not satisfied at end of loop body", "invariant-preserved"),
    ("loop invariant not satisfied", "invariant-preserved"),
    ("assertion failed", "assert"),
    ("possible arithmetic underflow/overflow", "overflow"),
    ("possible division by zero", "div-by-zero"),
    ("decreases not satisfied", "decreases"),
    ("could not prove termination", "decreases"),
    ("unreachable", "unreachable"),
    ("panic", "unreachable"),
]
UNDECIDED_MSG = ("rlimit", "Resource limit", "timed out", "canceled")

TRUST_RE = re.compile(r"#\[verifier::external_body\]\s*(?:pub\s+)?(?:const\s+)?(?:fn|struct)\s+([A-Za-z_0-9]+)|\b(assume|admit)\s*\(|(assume_specification)|#\[verifier::(external)\b(?!_body)")


def scan_trusted(text):
    names = []
    for m in TRUST_RE.finditer(text):
        names.append(m.group(1) or m.group(2) or m.group(3) or m.group(4))
    return sorted(names)


def _seg_at(mapj, off):
    for s in mapj["segments"]:
        if s["o0"] <= off < s["o1"]:
            return s
    return None


def _locate(mapj, text, off):
    """-> (fn name or '', human 'where')"""
    s = _seg_at(mapj, off)
    if s is None:
        return "", "assembled-file byte %d" % off
    if s["kind"] == "splice":
        lab = s["label"]
        fn = lab.split(":")[-1].split(".")[0] if not lab.startswith(("R", "frame", "cfg")) else ""
        return fn, "contract text `%s`" % lab
    line = s["line0"] + text.count("\n", s["o0"], off)
    rel = os.path.relpath(s["file"], REPO) if s["file"].startswith(REPO) else os.path.relpath(s["file"], VERIF)
    fn = ""
    for f in mapj["functions"]:
        if s["file"].endswith(f["file"]) and f["line0"] <= line <= f["line1"]:
            fn = f["name"]
    return fn, "%s:%d" % (rel, line)


def extract(unit_file, tag, features, falsify=False):
    ensure_tools()
    out = os.path.join(BUILD, "v", re.sub(r"[^A-Za-z0-9_]", "_", tag) + ("_falsify" if falsify else "") + ".rs")
    mp = out[:-3] + ".map.json"
    cmd = [VX, "unit", os.path.join(VERIF, "contracts", unit_file), "--repo", REPO, "--out", out, "--map", mp,
           "--features", ",".join(features), "--dep", "cosmwasm-std=" + dep_dir("cosmwasm-std")]
    if falsify:
        cmd.append("--falsify")
    rc, so, se, _ = sh(cmd)
    if rc != 0:
        raise Undecided("extraction of %s failed (lost anchor / unsupported construct): %s" % (unit_file, se.strip()[-800:]))
    return out, json.load(open(mp)), open(out).read()


def run_verus(path):
    cmd = ["verus", path, "--output-json", "--time", "--multiple-errors", "20", "--error-format=json"]
    rc, so, se, wall = sh(cmd, cwd=os.path.dirname(path), timeout=600)
    if rc == -9:
        raise Undecided("verus timed out on " + path)
    try:
        res = json.loads(so)
    except Exception:
        raise Undecided("verus produced no JSON on %s: %s" % (path, (se or so)[-1500:]))
    diags = []
    for line in se.splitlines():
        line = line.strip()
        if line.startswith("{"):
            try:
                diags.append(json.loads(line))
            except Exception:
                pass
    return res, diags, wall, " ".join(cmd)


def verify_unit(prop, unit_file, tag, features, baseline):
    """Runs extraction + Verus + vacuity sibling.  Returns (obs, info)."""
    key = "V." + tag
    c = cache_get(key)
    if c:
        return [Ob.from_json(o) for o in c["obs"]], dict(c["info"], cached=True)
    out, mapj, text = extract(unit_file, tag, features)
    trusted = scan_trusted(text)
    if baseline.get("trusted") is not None and trusted != sorted(baseline["trusted"]):
        raise Undecided("trusted-base scan of %s differs from the declared base: found %s, declared %s" % (tag, trusted, sorted(baseline["trusted"])))
    loops = {f["name"]: f["loops"] for f in mapj["functions"]}
    if baseline.get("loops") is not None and loops != baseline["loops"]:
        raise Undecided("extraction drifted for %s: loops per function now %s, contracts were written for %s" % (tag, loops, baseline["loops"]))
    res, diags, wall, cmdline = run_verus(out)
    vr = res.get("verification-results", {})
    if vr.get("encountered-vir-error") or ("verified" not in vr):
        msgs = [d.get("message", "") for d in diags if d.get("level") == "error"]
        raise Undecided("verus could not process %s (unsupported construct or unresolved name after a source change): %s" % (tag, "; ".join(msgs)[:1200]))
    # per-function records
    fb = []
    for m in res.get("times-ms", {}).get("smt", {}).get("smt-run-module-times", []):
        fb.extend(m.get("function-breakdown", []))
    ver = res.get("verus", {}).get("version", "?")
    backend = "verus %s / z3" % ver
    unitname = tag
    obs, failed_fns = [], set()
    errs = [d for d in diags if d.get("level") == "error" and d.get("spans")]
    hard = [d for d in diags if d.get("level") == "error" and not any(k in d.get("message", "") for k, _ in KIND_BY_MSG) and "aborting due to" not in d.get("message", "")]
    for d in errs:
        msg = d.get("message", "")
        kind = next((k for m, k in KIND_BY_MSG if m in msg), None)
        prim = next((s for s in d["spans"] if s.get("is_primary")), d["spans"][0])
        fn, where = _locate(mapj, text, prim["byte_start"])
        others = []
        for s in d["spans"]:
            if s is not prim:
                f2, w2 = _locate(mapj, text, s["byte_start"])
                fn = fn or f2
                others.append("%s (%s)" % (w2, (s.get("label") or "").strip()))
        if kind is None:
            if any(u in msg for u in UNDECIDED_MSG):
                obs.append(Ob("%s.V.%s.%s.solver" % (prop, unitname, fn or "?"), "V", "undecided", msg, backend=backend, where=where))
            continue
        # exits / call sites give the counterexample key: the source text of the secondary span
        keytxt = ""
        for s in d["spans"]:
            if s is not prim and s.get("text"):
                keytxt = " ".join(t["text"].strip() for t in s["text"])[:160]
        n = sum(1 for o in obs if o.name.startswith("%s.V.%s.%s.%s" % (prop, unitname, fn or "?", kind)))
        name = "%s.V.%s.%s.%s%s" % (prop, unitname, fn or "?", kind, ("#%d" % (n + 1)) if n else "")
        obs.append(Ob(name, "V", "refuted", msg + ("; " + "; ".join(others) if others else ""), backend=backend, where=where, key=keytxt,
                      extra={"verus_diagnostic": (d.get("rendered") or msg)[:3000]}))
        failed_fns.add(fn)
    if hard and not any(o.status == "refuted" for o in obs):
        raise Undecided("verus reported non-verification errors on %s: %s" % (tag, "; ".join(d.get("message", "") for d in hard)[:1200]))
    nfun = 0
    for f in fb:
        short = f["function"].split("::", 1)[-1]
        base = short.split("::")[-1]
        nfun += 1
        if f.get("success"):
            obs.append(Ob("%s.V.%s.%s" % (prop, unitname, short), "V", "discharged", "all obligations of this %s function (requires-at-call, ensures, invariants, decreases, bounds, overflow)" % f.get("mode:", "exec"),
                          seconds=f.get("time-micros", 0) / 1e6, backend=backend))
        elif base not in failed_fns and short not in failed_fns:
            obs.append(Ob("%s.V.%s.%s" % (prop, unitname, short), "V", "undecided", "function not verified and no classified diagnostic", backend=backend))
    if vr.get("errors", 0) > 0 and not any(o.status != "discharged" for o in obs):
        raise Undecided("verus reported %d errors on %s that could not be classified" % (vr["errors"], tag))
    if nfun == 0:
        raise Undecided("vacuity guard: Verus generated zero obligations for " + tag)
    if baseline.get("functions") is not None and vr.get("verified", 0) + vr.get("errors", 0) != baseline["functions"]:
        raise Undecided("obligation count drifted for %s: %d proof units, baseline %d" % (tag, vr.get("verified", 0) + vr.get("errors", 0), baseline["functions"]))
    info = {"unit": tag, "verus_cmd": cmdline.replace(VERIF + "/", ""), "wall_s": round(wall, 2), "verified": vr.get("verified", 0), "errors": vr.get("errors", 0),
            "smt_ms": res.get("times-ms", {}).get("smt", {}).get("total", 0), "rewrite_hits": mapj["hits"], "trusted": trusted,
            "functions_under_contract": ["%s (%s:%d-%d)" % (f["name"], f["file"], f["line0"], f["line1"]) for f in mapj["functions"]], "features": list(features)}
    # vacuity sibling: assert(false) at every function start and loop body start must FAIL
    if not any(o.status == "refuted" for o in obs):
        fout, fmap, ftext = extract(unit_file, tag, features, falsify=True)
        fres, fdiags, fwall, _ = run_verus(fout)
        got = set()
        if "verified" not in fres.get("verification-results", {}):
            raise Undecided("vacuity sibling of %s could not be processed by verus" % tag)
        for d in fdiags:
            if d.get("level") == "error" and "assertion failed" in d.get("message", ""):
                for s in d.get("spans", []):
                    seg = _seg_at(fmap, s["byte_start"])
                    if seg and seg["kind"] == "splice" and seg["label"].startswith("falsify:"):
                        got.add(seg["label"])
        missing = [l for l in fmap["falsify_labels"] if l not in got]
        info["vacuity_points"] = len(fmap["falsify_labels"])
        info["vacuity_points_reachable"] = len(got)
        if missing:
            raise Undecided("vacuity guard: `assert(false)` was NOT refuted at %s in %s (contradictory requires/invariant?)" % (missing, tag))
    cache_put(key, {"obs": [o.to_json() for o in obs], "info": info})
    return obs, info
