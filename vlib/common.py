"""Shared plumbing for ./check: paths, tree hash, cache, evidence, known findings, verdicts."""
import hashlib, json, os, subprocess, sys, time, re, shutil

VERIF = os.path.dirname(os.path.dirname(os.path.abspath(__file__)))
REPO = os.environ.get("VERIF_REPO", "/repo")
BUILD = os.path.join(VERIF, ".build")
EVID = os.path.join(VERIF, "evidence")
REPLAY = os.path.join(EVID, "replay")
VX = os.path.join(BUILD, "tools", "release", "vx-extract")
NPROC = int(os.environ.get("VERIF_JOBS", "0")) or os.cpu_count() or 8
import hashlib as _hl
REPO_TAG = "main" if REPO == "/repo" else _hl.sha256(REPO.encode()).hexdigest()[:10]
if REPO_TAG != "main":
    # runs against a scratch worktree (seeded-change trials) never touch the committed evidence
    EVID = os.path.join(BUILD, "evidence-" + REPO_TAG)
    REPLAY = os.path.join(EVID, "replay")

OFFLINE_ENV = {"CARGO_NET_OFFLINE": "true", "GOPROXY": "off", "PIP_NO_INDEX": "1"}


def env_offline(extra=None):
    e = dict(os.environ)
    e.update(OFFLINE_ENV)
    if extra:
        e.update(extra)
    return e


def sh(cmd, cwd=None, timeout=None, env=None, stdin=None):
    """run, capture; returns (rc, stdout, stderr, wall_s); rc=-9 on timeout"""
    t0 = time.time()
    try:
        p = subprocess.run(cmd, cwd=cwd, timeout=timeout, env=env or env_offline(), input=stdin,
                           stdout=subprocess.PIPE, stderr=subprocess.PIPE, text=True, errors="replace")
        return p.returncode, p.stdout, p.stderr, time.time() - t0
    except subprocess.TimeoutExpired as ex:
        out = ex.stdout.decode(errors="replace") if isinstance(ex.stdout, bytes) else (ex.stdout or "")
        err = ex.stderr.decode(errors="replace") if isinstance(ex.stderr, bytes) else (ex.stderr or "")
        return -9, out, err, time.time() - t0


def ensure_dirs():
    for d in (BUILD, EVID, REPLAY, os.path.join(BUILD, "v"), os.path.join(BUILD, "cache")):
        os.makedirs(d, exist_ok=True)


def ensure_tools():
    """build vx-extract if missing (setup_cmd normally does this)"""
    if not os.path.exists(VX):
        rc, out, err, _ = sh(["cargo", "build", "--release", "--offline"], cwd=os.path.join(VERIF, "tools", "vx-extract"),
                             env=env_offline({"CARGO_TARGET_DIR": os.path.join(BUILD, "tools")}))
        if rc != 0:
            raise Undecided("cannot build vx-extract: " + err[-2000:])


class Undecided(Exception):
    """tooling trouble / lost anchor / timeout: exit 2, never an alarm"""


# ---------------------------------------------------------------- hashing / cache
def _hash_paths(paths, h):
    for root in paths:
        if os.path.isfile(root):
            h.update(root.encode()); h.update(open(root, "rb").read()); continue
        for dp, dn, fn in os.walk(root):
            dn[:] = sorted(d for d in dn if d not in ("target", ".git", ".build", "__pycache__"))
            for f in sorted(fn):
                p = os.path.join(dp, f)
                try:
                    h.update(p.encode()); h.update(open(p, "rb").read())
                except OSError:
                    pass


_tree_hash = None


def tree_hash():
    """hash of everything a result may depend on: repo crates, lock file, and the machinery itself"""
    global _tree_hash
    if _tree_hash is None:
        h = hashlib.sha256()
        _hash_paths([os.path.join(REPO, "sylvia"), os.path.join(REPO, "sylvia-derive"), os.path.join(REPO, "Cargo.lock"),
                     os.path.join(REPO, "Cargo.toml"),
                     os.path.join(VERIF, "contracts"), os.path.join(VERIF, "kani"), os.path.join(VERIF, "vlib"),
                     os.path.join(VERIF, "tools"), os.path.join(VERIF, "replay"), os.path.join(VERIF, "check")], h)
        _tree_hash = h.hexdigest()[:24]
    return _tree_hash


def cache_get(key):
    if os.environ.get("VERIF_NO_CACHE"):
        return None
    p = os.path.join(BUILD, "cache", tree_hash(), key + ".json")
    if os.path.exists(p):
        try:
            return json.load(open(p))
        except Exception:
            return None
    return None


def cache_put(key, val):
    d = os.path.join(BUILD, "cache", tree_hash())
    os.makedirs(d, exist_ok=True)
    # keep the cache small: drop entries of other trees
    base = os.path.join(BUILD, "cache")
    ents = sorted((os.path.getmtime(os.path.join(base, e)), e) for e in os.listdir(base))
    for _, e in ents[:-40]:
        if e != tree_hash():
            shutil.rmtree(os.path.join(base, e), ignore_errors=True)
    tmp = os.path.join(d, key + ".json.tmp%d" % os.getpid())
    json.dump(val, open(tmp, "w"))
    os.replace(tmp, os.path.join(d, key + ".json"))


# ---------------------------------------------------------------- obligations
class Ob:
    """one obligation record"""
    def __init__(self, name, engine, status, detail="", seconds=0.0, backend="", where="", key="", cached=False, extra=None):
        self.name, self.engine, self.status = name, engine, status  # status: discharged | refuted | undecided
        self.detail, self.seconds, self.backend, self.where, self.key = detail, seconds, backend, where, key
        self.cached = cached
        self.extra = extra or {}

    def to_json(self):
        d = {"obligation": self.name, "engine": self.engine, "status": self.status, "backend": self.backend,
             "seconds": round(self.seconds, 3)}
        if self.where: d["where"] = self.where
        if self.detail: d["detail"] = self.detail[:600]
        if self.key: d["counterexample_key"] = self.key
        if self.cached: d["from_cache_of_same_tree"] = True
        d.update(self.extra)
        return d

    @staticmethod
    def from_json(d):
        o = Ob(d["obligation"], d["engine"], d["status"], d.get("detail", ""), d.get("seconds", 0.0), d.get("backend", ""),
               d.get("where", ""), d.get("counterexample_key", ""), True,
               {k: v for k, v in d.items() if k not in ("obligation", "engine", "status", "detail", "seconds", "backend", "where", "counterexample_key", "from_cache_of_same_tree")})
        return o


# ---------------------------------------------------------------- known findings
def load_known():
    """known_findings.txt lines:
         finding: property=<id> obligation=<glob> key=<regex or *> :: text
         fixed: property=<id> <commit> <text>       (suppresses nothing)"""
    res = []
    p = os.path.join(VERIF, "known_findings.txt")
    if not os.path.exists(p):
        return res
    for line in open(p):
        line = line.strip()
        if not line or line.startswith("#"):
            continue
        if line.startswith("finding:"):
            head, _, text = line[len("finding:"):].partition("::")
            kv = dict(x.split("=", 1) for x in head.split() if "=" in x)
            res.append({"property": kv.get("property"), "obligation": kv.get("obligation", ""), "key": kv.get("key", "*"), "text": text.strip()})
    return res


def match_known(prop, ob, known):
    import fnmatch
    for k in known:
        if k["property"] != prop:
            continue
        if not fnmatch.fnmatchcase(ob.name, k["obligation"]):
            continue
        if k["key"] == "*" or (ob.key and re.fullmatch(k["key"], ob.key)):
            return k
    return None


# ---------------------------------------------------------------- evidence
def write_evidence(prop, tier, seed, level, coverage, assumptions, wall_s, violations):
    os.makedirs(EVID, exist_ok=True)
    ev = {"property_id": prop, "tier": tier, "seed": seed, "level": level, "coverage": coverage,
          "assumptions": assumptions, "wall_s": round(wall_s, 2), "violations": violations}
    tmp = os.path.join(EVID, prop + ".json.tmp")
    json.dump(ev, open(tmp, "w"), indent=1)
    os.replace(tmp, os.path.join(EVID, prop + ".json"))


def write_replay(prop, ob, body):
    os.makedirs(REPLAY, exist_ok=True)
    safe = re.sub(r"[^A-Za-z0-9_.#-]", "_", ob.name)[:150]
    p = os.path.join(REPLAY, "%s-%s.json" % (prop, safe))
    json.dump(body, open(p, "w"), indent=1)
    return p


def dep_dir(name_prefix):
    """directory of a dependency's source as cargo resolved it for /repo (offline registry)"""
    lock = open(os.path.join(REPO, "Cargo.lock")).read()
    m = re.search(r'name = "%s"\nversion = "([^"]+)"' % re.escape(name_prefix), lock)
    if not m:
        raise Undecided("dependency %s not in Cargo.lock" % name_prefix)
    ver = m.group(1)
    base = os.path.expanduser("~/.cargo/registry/src")
    for idx in sorted(os.listdir(base)):
        d = os.path.join(base, idx, "%s-%s" % (name_prefix, ver))
        if os.path.isdir(d):
            return d
    raise Undecided("source of %s-%s not in the offline registry" % (name_prefix, ver))
